package main

import (
	"encoding/json"
	"flag"
	"fmt"
	"os"
	"os/exec"
	"path/filepath"
	"sort"
	"strings"
	"sync"
	"time"
)

const VerifDir = "/verif"

type PropCfg struct {
	Title       string    `json:"title"`
	Quick       []RunSpec `json:"quick"`
	Thorough    []RunSpec `json:"thorough"`
	Bounds      string    `json:"bounds"`
	Outside     []string  `json:"outside"`
	Assumptions []string  `json:"assumptions"`
}

// evidenceDir: /verif/evidence for every registered check; SYMGO_EVIDENCE_DIR redirects it when a seeded change is
// tried on a scratch worktree (tools/mutest.sh), so that such trials never overwrite the evidence of the real tree.
func evidenceDir() string {
	if d := os.Getenv("SYMGO_EVIDENCE_DIR"); d != "" {
		return d
	}
	return filepath.Join(VerifDir, "evidence")
}

type knownFinding struct {
	Prop, Key, Text string
}

func loadKnown() (open []knownFinding, fixed []string) {
	b, err := os.ReadFile(filepath.Join(VerifDir, "KNOWN_FINDINGS.txt"))
	if err != nil {
		return nil, nil
	}
	for _, line := range strings.Split(string(b), "\n") {
		line = strings.TrimSpace(line)
		switch {
		case strings.HasPrefix(line, "KNOWN-FINDING:"):
			rest := strings.TrimSpace(strings.TrimPrefix(line, "KNOWN-FINDING:"))
			f := strings.Fields(rest)
			kf := knownFinding{}
			var text []string
			for _, w := range f {
				switch {
				case strings.HasPrefix(w, "property=") && kf.Prop == "":
					kf.Prop = strings.TrimPrefix(w, "property=")
				case strings.HasPrefix(w, "key=") && kf.Key == "":
					kf.Key = strings.TrimPrefix(w, "key=")
				default:
					text = append(text, w)
				}
			}
			kf.Text = strings.Join(text, " ")
			open = append(open, kf)
		case strings.HasPrefix(line, "fixed:"):
			fixed = append(fixed, line)
		}
	}
	return
}

func cmdCheck(args []string) {
	fs := flag.NewFlagSet("check", flag.ExitOnError)
	prop := fs.String("prop", "", "property id")
	tier := fs.String("tier", "", "quick | thorough")
	keep := fs.Bool("keep", false, "keep the scratch directory")
	verbose := fs.Bool("v", false, "print every run")
	fs.Parse(args)
	if *tier == "" {
		*tier = os.Getenv("VERIF_TIER")
	}
	if *tier != "thorough" {
		*tier = "quick"
	}
	seed := 0
	fmt.Sscan(os.Getenv("VERIF_SEED"), &seed)
	t0 := time.Now()

	var cfgs map[string]PropCfg
	b, err := os.ReadFile(filepath.Join(VerifDir, "checks.json"))
	if err != nil {
		fatal("%v", err)
	}
	if err := json.Unmarshal(b, &cfgs); err != nil {
		fatal("checks.json: %v", err)
	}
	cfg, ok := cfgs[*prop]
	if !ok {
		fatal("no check configured for %s", *prop)
	}
	specs := cfg.Quick
	if *tier == "thorough" {
		specs = append(append([]RunSpec(nil), cfg.Quick...), cfg.Thorough...)
	}
	openAll, _ := loadKnown()
	var open []knownFinding
	var openKeys []string
	for _, k := range openAll {
		if k.Prop == *prop {
			open = append(open, k)
			openKeys = append(openKeys, k.Key)
		}
	}

	tmp, _ := os.MkdirTemp("", "symgo-"+*prop+"-")
	if !*keep {
		defer os.RemoveAll(tmp)
	}
	replayDir := filepath.Join(evidenceDir(), "replays")
	os.MkdirAll(replayDir, 0o755)
	// stale replays of this property are removed: a replay file always belongs to the run that wrote it
	old, _ := filepath.Glob(filepath.Join(replayDir, "*"+*prop+"-*.json"))
	for _, f := range old {
		os.Remove(f)
	}
	bin := filepath.Join(tmp, "replay.test")
	go buildReplayBin(bin)

	// expand runs: every configured run in exclude mode (no effect without open findings), plus one confirm run per
	// open finding on the first run that mentions it (RunSpec.OpenKeys lists the keys a harness knows about).
	type job struct {
		spec RunSpec
		res  *RunResult
		err  string
		kf   *knownFinding
	}
	var jobs []*job
	for _, s := range specs {
		s.Prop, s.ReplayBin, s.ReplayDir, s.Seed = *prop, bin, replayDir, seed
		s.RunID = len(jobs)
		// the thorough tier re-runs the quick configurations as they are and cross-checks the deeper ones
		s.Cross = *tier == "thorough" && (len(jobs) >= len(cfg.Quick) || len(cfg.Thorough) == 0)
		knows := s.OpenKeys
		s.OpenKeys = openKeys
		s.KnownMode = "exclude"
		jobs = append(jobs, &job{spec: s})
		for i := range open {
			for _, k := range knows {
				if k == open[i].Key {
					c := s
					c.RunID = len(jobs)
					c.KnownMode = "confirm:" + k
					c.Cross = false
					jobs = append(jobs, &job{spec: c, kf: &open[i]})
				}
			}
		}
	}
	par := len(jobs)
	if par > 6 {
		par = 6
	}
	if par < 1 {
		par = 1
	}
	workers := 16 / par
	if workers < 2 {
		workers = 2
	}
	self, _ := os.Executable()
	var wg sync.WaitGroup
	sem := make(chan struct{}, par)
	for i, j := range jobs {
		wg.Add(1)
		go func(i int, j *job) {
			defer wg.Done()
			sem <- struct{}{}
			defer func() { <-sem }()
			sb, _ := json.Marshal(j.spec)
			out := filepath.Join(tmp, fmt.Sprintf("run%d.json", i))
			// wall-clock budget per run: a run that does not finish is a machinery fault, never a pass
			budget := "1200"
			if *tier == "thorough" {
				budget = "7200"
			}
			cmd := exec.Command("timeout", "-k", "10", budget, self, "one", "--spec", string(sb), "--out", out)
			cmd.Env = append(os.Environ(), fmt.Sprintf("SYMGO_WORKERS=%d", workers))
			o, err := cmd.CombinedOutput()
			rb, rerr := os.ReadFile(out)
			if rerr != nil {
				tail := string(o)
				if len(tail) > 2000 {
					tail = tail[len(tail)-2000:]
				}
				j.err = fmt.Sprintf("run failed (%v): %s", err, tail)
				return
			}
			var r RunResult
			if err := json.Unmarshal(rb, &r); err != nil {
				j.err = err.Error()
				return
			}
			j.res = &r
		}(i, j)
	}
	wg.Wait()

	// ---- aggregate ----
	var violations, broken, knownLines []string
	ev := newEvidence(*prop, *tier, seed, cfg)
	for _, j := range jobs {
		if j.res == nil {
			broken = append(broken, fmt.Sprintf("%s: %s", j.spec.Entry, j.err))
			continue
		}
		r := j.res
		if *verbose {
			printRun(r, false)
		}
		if j.kf != nil {
			// confirm run: the recorded finding must still be exhibited by the real code
			if len(r.Violations) > 0 {
				knownLines = append(knownLines, fmt.Sprintf("KNOWN-FINDING: property=%s key=%s %s", *prop, j.kf.Key, j.kf.Text))
				ev.Known = append(ev.Known, map[string]interface{}{"key": j.kf.Key, "text": j.kf.Text, "still_reproduces": true, "replay": r.Violations[0].Replay, "native": r.Violations[0].Native})
			} else {
				ev.Known = append(ev.Known, map[string]interface{}{"key": j.kf.Key, "text": j.kf.Text, "still_reproduces": false})
				if r.Unsupported != "" {
					broken = append(broken, fmt.Sprintf("%s (confirm %s): unsupported: %s", j.spec.Entry, j.kf.Key, r.Unsupported))
				}
			}
			ev.addRun(r, true)
			continue
		}
		ev.addRun(r, false)
		if r.Unsupported != "" {
			broken = append(broken, fmt.Sprintf("%s: unsupported: %s", j.spec.Entry, r.Unsupported))
		}
		for _, v := range r.Violations {
			violations = append(violations, fmt.Sprintf("VIOLATION property=%s replay=%s", *prop, v.Replay))
			fmt.Printf("  %s [%s] %s\n    model: %s\n    %s\n", j.spec.Entry, v.Kind, v.ID, v.Witness, v.Native)
		}
		for _, v := range r.Spurious {
			broken = append(broken, fmt.Sprintf("%s: SPURIOUS model for [%s] %s (%s; %s) replay=%s", j.spec.Entry, v.Kind, v.ID, v.Reproduced, v.Native, v.Replay))
		}
		for _, v := range r.Undecided {
			broken = append(broken, fmt.Sprintf("%s: NOT DISCHARGED [%s] %s: %s %s", j.spec.Entry, v.Kind, v.ID, v.Result, v.Native))
		}
		for _, v := range r.Vacuous {
			broken = append(broken, fmt.Sprintf("%s: VACUOUS cover %s", j.spec.Entry, v.ID))
		}
		for _, v := range r.WitnessBad {
			broken = append(broken, fmt.Sprintf("%s: WITNESS DISAGREEMENT on cover %s: %s", j.spec.Entry, v.ID, v.Native))
		}
		for _, v := range r.CrossDis {
			broken = append(broken, fmt.Sprintf("%s: SOLVER DISAGREEMENT [%s] %s: %s", j.spec.Entry, v.Kind, v.ID, v.Cross))
		}
	}
	ev.WallS = time.Since(t0).Seconds()
	ev.Violations = len(violations)
	ev.Broken = broken
	ev.write()

	for _, l := range knownLines {
		fmt.Println(l)
	}
	fmt.Printf("%s %s: runs %d, obligations %d, discharged %d, covers %d, witnesses replayed %d, solver queries %d, wall %.1fs\n",
		*prop, *tier, len(jobs), ev.nObl, ev.nDischarged, ev.nCovers, ev.nWitness, ev.nQueries, ev.WallS)
	if len(violations) > 0 {
		sort.Strings(violations)
		for _, v := range violations {
			fmt.Println(v)
		}
		os.Exit(1)
	}
	if len(broken) > 0 {
		for _, b := range broken {
			fmt.Println("BROKEN:", b)
		}
		os.Exit(2)
	}
}

// ---- evidence ----

type evidence struct {
	Prop, Tier string
	Seed       int
	Cfg        PropCfg
	WallS      float64
	Violations int
	Broken     []string
	Known      []map[string]interface{}
	runs       []map[string]interface{}
	funcs      map[string]int
	samples    []interface{}
	nObl, nDischarged, nCovers, nWitness, nQueries, nNontrivial int
	steps, forks                                                int
	solverCPU, feasS                                            float64
	distinct                                                    map[string]bool
}

func newEvidence(prop, tier string, seed int, cfg PropCfg) *evidence {
	return &evidence{Prop: prop, Tier: tier, Seed: seed, Cfg: cfg, funcs: map[string]int{}, distinct: map[string]bool{}}
}

func (ev *evidence) addRun(r *RunResult, confirm bool) {
	for f, n := range r.Funcs {
		ev.funcs[f] = n
	}
	run := map[string]interface{}{
		"entry": r.Spec.Entry, "params": r.Spec.Params, "unwind": r.Spec.Unwind, "depth": r.Spec.Depth, "known_mode": r.Spec.KnownMode,
		"load_s": r.LoadS, "exec_s": r.ExecS, "solve_wall_s": r.SolveS, "solver_cpu_s": r.SolverCPU,
		"ssa_instructions_executed": r.Steps, "forks": r.Forks, "merges": r.Merges, "terms": r.Terms,
		"feasibility_queries": r.FeasQueries, "obligations": len(r.Obls), "unsupported": r.Unsupported,
	}
	ev.steps += r.Steps
	ev.forks += r.Forks + 1
	ev.solverCPU += r.SolverCPU
	ev.feasS += r.FeasS
	ev.nQueries += r.FeasQueries
	byID := map[string]map[string]int{}
	for _, o := range r.Obls {
		if !o.Folded {
			ev.nQueries++
		}
		if confirm {
			continue
		}
		k := o.Kind + ":" + o.ID
		if byID[k] == nil {
			byID[k] = map[string]int{}
		}
		byID[k][o.Result]++
		if o.Kind == "cover" {
			ev.nCovers++
			if o.Native != "" && o.Result == "sat" {
				ev.nWitness++
				if len(ev.samples) < 12 {
					ev.samples = append(ev.samples, map[string]interface{}{"harness": r.Spec.Entry, "cover": o.ID, "witness_input": o.Witness, "native_replay": o.Native})
				}
			}
			continue
		}
		ev.nObl++
		if o.Result == "unsat" {
			ev.nDischarged++
		}
		if !o.Folded {
			ev.distinct[r.Spec.Entry+"|"+k] = true
		}
	}
	var obl []string
	for k, v := range byID {
		obl = append(obl, fmt.Sprintf("%s %v", k, v))
	}
	sort.Strings(obl)
	run["obligation_verdicts"] = obl
	ev.runs = append(ev.runs, run)
}

func (ev *evidence) write() {
	var fl []string
	total := 0
	for f, n := range ev.funcs {
		fl = append(fl, fmt.Sprintf("%s (%d instrs)", f, n))
		total += n
	}
	sort.Strings(fl)
	samples := ev.samples
	if len(samples) == 0 {
		samples = []interface{}{map[string]interface{}{"note": "no witness replayed in this run"}}
	}
	states := ev.forks
	if states < 1 {
		states = 1
	}
	trans := ev.steps
	if trans < 1 {
		trans = 1
	}
	cov := map[string]interface{}{
		"states":                        states,
		"transitions":                   trans,
		"traces_validated_against_impl": ev.nWitness,
		"samples":                       samples,
		"evaluations":                   ev.nQueries,
		"distinct_nontrivial":           len(ev.distinct),
		"rule":                          "states = merged symbolic states created (forks+1 per run); transitions = SSA instructions executed symbolically; evaluations = SMT queries sent to a solver (final obligations + branch-feasibility); distinct_nontrivial = distinct (harness, obligation kind, obligation id) whose formula was not decided by constant folding and went to the solver; traces_validated_against_impl = cover witnesses (solver models) replayed against the natively compiled real code with agreeing outcome",
		"obligations":                   ev.nObl,
		"discharged":                    ev.nDischarged,
		"covers":                        ev.nCovers,
		"functions_encoded":             fl,
		"ssa_instructions_in_encoded_functions": total,
		"bounds":                        ev.Cfg.Bounds,
		"outside_the_bounds":            ev.Cfg.Outside,
		"solver":                        "z3 5.1.0 (z3-new) decides every final obligation as a standalone QF_BV script; a portfolio (z3 5.1.0 on the define-fun script, z3 4.8.12 on the named-constant script) decides each; the thorough tier re-runs the quick configurations, adds the deeper ones and, for those, additionally re-solves every cover / frozen-write obligation and evenly spaced samples of <=48 assert and <=24 no-panic / unwinding obligations per run with z3 4.8.12 and cvc5 1.0.3 (20 s cap each; a disagreement is a machinery fault)",
		"solver_cpu_s":                  ev.solverCPU,
		"feasibility_solver_s":          ev.feasS,
		"runs":                          ev.runs,
		"known_findings":                ev.Known,
		"machinery_faults":              ev.Broken,
		"exhaustive":                    false,
	}
	doc := map[string]interface{}{
		"property_id": ev.Prop, "tier": ev.Tier, "seed": ev.Seed, "level": "model_checking",
		"coverage": cov, "assumptions": ev.Cfg.Assumptions, "wall_s": ev.WallS, "violations": ev.Violations,
	}
	if doc["assumptions"] == nil {
		doc["assumptions"] = []string{}
	}
	b, _ := json.MarshalIndent(doc, "", " ")
	os.MkdirAll(evidenceDir(), 0o755)
	os.WriteFile(filepath.Join(evidenceDir(), ev.Prop+".json"), b, 0o644)
}
