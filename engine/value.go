package main

import (
	"os"
	"fmt"
	"go/types"
	"strings"

	"golang.org/x/tools/go/ssa"
)

type Value interface{}

type BoolV struct{ T *Term }
type IntV struct{ T *Term }
type StrV struct {
	Len   *Term   // bv64
	B     []*Term // bv8, capacity (nil while lazy: see R)
	R     *Rope   // optional token structure: string == join(tokens, "/"), every piece is '/'-free
	EscOf *StrV   // set on the result of jsonpointer.Escape: the string it is the escaped form of
	Plain  bool   // the string holds neither '~' nor '/' (e.g. a mangled name): jsonpointer Escape / Unescape leave it as it is
	UEscOf *StrV  // set on url-escaped pieces ((*url.URL).String of a fragment): the string it is the escaped form of
	Ch    *strChoice // lazy merge: the string is A under C, else B (B and R are nil then); forced by fl()
}

// strChoice keeps the two sides of a merged string apart, so that structure (ropes, constants) survives joins and
// equality / token functions distribute over the alternatives instead of working on ite-merged bytes.
type strChoice struct {
	C    *Term
	A, B StrV
	flat *StrV
}

func flatMerge(c *Term, x, y StrV) StrV {
	x, y = fl(x), fl(y)
	n := max(len(x.B), len(y.B))
	out := make([]*Term, n)
	z := BV(8, 0)
	for i := 0; i < n; i++ {
		p, q := z, z
		if i < len(x.B) {
			p = x.B[i]
		}
		if i < len(y.B) {
			q = y.B[i]
		}
		out[i] = Ite(c, p, q)
	}
	return StrV{Len: Ite(c, x.Len, y.Len), B: out}
}

// Rope: the string is the "/"-join of Toks; a token is the concatenation of its pieces (flat, '/'-free strings).
type Rope struct {
	Toks [][]StrV
	flat *StrV
}

func ropeOfConst(s string) *Rope {
	r := &Rope{}
	for _, t := range strings.Split(s, "/") {
		if t == "" {
			r.Toks = append(r.Toks, nil)
		} else {
			r.Toks = append(r.Toks, []StrV{flatC(t)})
		}
	}
	return r
}

func flatC(s string) StrV {
	b := make([]*Term, len(s))
	for i := 0; i < len(s); i++ {
		b[i] = BV(8, uint64(s[i]))
	}
	return StrV{Len: BV(64, uint64(len(s))), B: b}
}

func ropeLen(r *Rope) *Term {
	var t *Term = BV(64, uint64(len(r.Toks)-1))
	for _, tok := range r.Toks {
		for _, p := range tok {
			t = Add(t, p.Len)
		}
	}
	return t
}

func ropeConcat(a, b *Rope) *Rope {
	r := &Rope{}
	r.Toks = append(r.Toks, a.Toks[:len(a.Toks)-1]...)
	mid := append(append([]StrV(nil), a.Toks[len(a.Toks)-1]...), b.Toks[0]...)
	r.Toks = append(r.Toks, mid)
	r.Toks = append(r.Toks, b.Toks[1:]...)
	return r
}

// fl returns the flat view of a string, materialising a lazy rope once.
func fl(s StrV) StrV {
	if s.B == nil && s.Ch != nil {
		if s.Ch.flat == nil {
			f := flatMerge(s.Ch.C, s.Ch.A, s.Ch.B)
			if f.B == nil {
				f.B = []*Term{}
			}
			s.Ch.flat = &f
		}
		return *s.Ch.flat
	}
	if s.B != nil || s.R == nil {
		return s
	}
	if s.R.flat != nil {
		return *s.R.flat
	}
	var acc StrV
	first := true
	for i, tok := range s.R.Toks {
		if i > 0 {
			acc = flatConcat(acc, flatC("/"))
		}
		for _, p := range tok {
			if first {
				acc, first = fl(p), false
			} else {
				acc = flatConcat(acc, p)
			}
		}
		if first {
			acc, first = flatC(""), false
		}
	}
	if acc.B == nil {
		acc.B = []*Term{}
	}
	s.R.flat = &acc
	return acc
}

func tokFlat(tok []StrV) StrV {
	acc := flatC("")
	for i, p := range tok {
		if i == 0 {
			acc = fl(p)
		} else {
			acc = flatConcat(acc, p)
		}
	}
	return acc
}

func ropeEq(a, b *Rope) *Term {
	if len(a.Toks) != len(b.Toks) {
		return TFalse
	}
	conj := make([]*Term, 0, len(a.Toks))
	for i := range a.Toks {
		t := eqFlat(tokFlat(a.Toks[i]), tokFlat(b.Toks[i]))
		if t.IsFalse() {
			return TFalse
		}
		conj = append(conj, t)
	}
	return And(conj...)
}
type StructV struct{ F []Value }
type ArrayV struct{ E []Value }
type PtrAlt struct {
	G    *Term
	Obj  int // -1 = nil
	Path []int
}
type PtrV struct{ Alts []PtrAlt }
type SliceAlt struct {
	G   *Term
	Obj int // -1 = nil slice
	Off int
	Len *Term
	Cap int
}
type SliceV struct{ Alts []SliceAlt }
type MapAlt struct {
	G   *Term
	Obj int // -1 nil map
}
type MapV struct{ Alts []MapAlt }
type IfaceAlt struct {
	G   *Term
	Typ types.Type // nil => nil interface
	V   Value
}
type IfaceV struct{ Alts []IfaceAlt }
type FuncV struct {
	Fn   *ssa.Function
	Bind []Value
}
type TupleV struct{ E []Value }
type IterV struct{ Obj int }
type PoisonV struct{ Why string }

// AbsErr is the payload of an abstract error value (dynamic type: the named type below)
type AbsErr struct{ Msg StrV }

// heap objects
type MapEntry struct {
	G    *Term
	K    Value
	V    Value
	Tomb bool
}
type CurAlt struct {
	G   *Term
	Idx int
}
// ListEntry: one element of a slice built by (conditional) appends; it is present iff G holds.
type ListEntry struct {
	G *Term
	V Value
	U int // append-event id: entries of one list are ordered by U; the same U in two lists is the same element
}

type Obj struct {
	Val    Value      // cell content for Alloc/array objects (nil while a list object is not materialised)
	List   []ListEntry // guarded element list (valid while HasList); positions are computed only on demand
	HasList bool
	ElemZ  Value      // zero value of the element type (for materialisation)
	Thunk  *appThunk  // how to compute Val positionally (append of tail to base), forced on demand
	IsMap  bool
	Log    []MapEntry // map write log (treated immutable; always copy on append)
	IsIter bool
	Cands  []MapEntry // iterator candidates (snapshot)
	CandObj []int
	EffC    []*Term // cached effectiveness per candidate
	ValC    []Value
	VerC    map[int]int // map obj -> log length at cache time
	MapObj int
	Snap   map[int]int // map object -> length of its write log when the range started
	Perm   bool        // candidates are a symbolic permutation of the live entries (keys pairwise distinct)
	Cur    []CurAlt
	Epoch  int // allocation order (for freeze)
	CapInexact bool // make() with a symbolic capacity: the modelled capacity is an upper bound, not the real one
}

func StrC(s string) StrV {
	f := flatC(s)
	f.R = ropeOfConst(s)
	return f
}

func (s StrV) Concrete() (string, bool) {
	if !s.Len.IsConst() || (s.B == nil && s.Ch != nil) {
		return "", false
	}
	s = fl(s)
	n := int(s.Len.val)
	if len(s.B) < n {
		panic(fmt.Sprintf("ill-formed string value: len %d, %d bytes, rope %v, choice %v, escof %v", n, len(s.B), s.R != nil, s.Ch != nil, s.EscOf != nil))
	}
	out := make([]byte, n)
	for i := 0; i < n; i++ {
		if !s.B[i].IsConst() {
			return "", false
		}
		out[i] = byte(s.B[i].val)
	}
	return string(out), true
}

func nilPtr() PtrV     { return PtrV{[]PtrAlt{{G: TTrue, Obj: -1}}} }
func nilSlice() SliceV { return SliceV{[]SliceAlt{{G: TTrue, Obj: -1, Len: BV(64, 0)}}} }
func nilMap() MapV     { return MapV{[]MapAlt{{G: TTrue, Obj: -1}}} }
func nilIface() IfaceV { return IfaceV{[]IfaceAlt{{G: TTrue}}} }

func intWidth(t types.Type) (int, bool, bool) {
	b, ok := t.Underlying().(*types.Basic)
	if !ok {
		return 0, false, false
	}
	switch b.Kind() {
	case types.Int8:
		return 8, true, true
	case types.Int16:
		return 16, true, true
	case types.Int32:
		return 32, true, true
	case types.Int, types.Int64, types.UntypedInt:
		return 64, true, true
	case types.Uint8:
		return 8, false, true
	case types.Uint16:
		return 16, false, true
	case types.Uint32:
		return 32, false, true
	case types.Uint, types.Uint64, types.Uintptr:
		return 64, false, true
	case types.UntypedRune:
		return 32, true, true
	}
	return 0, false, false
}

func zero(t types.Type) Value {
	switch u := t.Underlying().(type) {
	case *types.Basic:
		switch {
		case u.Info()&types.IsBoolean != 0:
			return BoolV{TFalse}
		case u.Info()&types.IsString != 0:
			return StrC("")
		case u.Info()&types.IsInteger != 0:
			w, _, _ := intWidth(t)
			return IntV{BV(w, 0)}
		case u.Kind() == types.UnsafePointer:
			return nilPtr()
		case u.Info()&types.IsFloat != 0:
			return IntV{BV(64, 0)} // floats unsupported: opaque zero
		}
	case *types.Struct:
		f := make([]Value, u.NumFields())
		for i := range f {
			f[i] = zero(u.Field(i).Type())
		}
		return StructV{f}
	case *types.Array:
		e := make([]Value, u.Len())
		for i := range e {
			e[i] = zero(u.Elem())
		}
		return ArrayV{e}
	case *types.Pointer:
		return nilPtr()
	case *types.Slice:
		return nilSlice()
	case *types.Map:
		return nilMap()
	case *types.Interface:
		return nilIface()
	case *types.Signature:
		return FuncV{}
	case *types.Tuple:
		e := make([]Value, u.Len())
		for i := range e {
			e[i] = zero(u.At(i).Type())
		}
		return TupleV{e}
	case *types.Chan:
		return nilPtr()
	}
	panic(fmt.Sprintf("zero: unsupported type %v", t))
}

// ite-merge of two values of the same static type
func mergeV(c *Term, a, b Value) Value {
	if c.IsTrue() {
		return a
	}
	if c.IsFalse() {
		return b
	}
	if p, ok := b.(PoisonV); ok {
		return p
	}
	if identical(a, b) {
		return a
	}
	switch x := a.(type) {
	case nil:
		return b
	case BoolV:
		return BoolV{Ite(c, x.T, b.(BoolV).T)}
	case IntV:
		return IntV{Ite(c, x.T, b.(IntV).T)}
	case StrV:
		y := b.(StrV)
		if os.Getenv("SYMGO_NOPROMOTE") == "" {
			x, y = promoteConst(x), promoteConst(y)
		}
		if (x.R != nil || x.Ch != nil) && (y.R != nil || y.Ch != nil) {
			// keep structured strings apart (lazy merge), as a chain over the DISTINCT alternatives
			var alts []strAlt
			strAlts(x, c, &alts)
			strAlts(y, Not(c), &alts)
			return mkChoice(alts)
		}
		if DebugFlat && (x.R != nil || y.R != nil || x.Ch != nil || y.Ch != nil) {
			xs, _ := x.Concrete()
			ys, _ := y.Concrete()
			fmt.Printf("    [flat-merge] in %s: structured=%v/%v const=%q/%q\n", curFn, x.R != nil || x.Ch != nil, y.R != nil || y.Ch != nil, xs, ys)
		}
		return flatMerge(c, x, y)
	case StructV:
		y := b.(StructV)
		same := true
		f := make([]Value, len(x.F))
		for i := range f {
			f[i] = mergeV(c, x.F[i], y.F[i])
		}
		_ = same
		return StructV{f}
	case ArrayV:
		y := b.(ArrayV)
		e := make([]Value, len(x.E))
		for i := range e {
			e[i] = mergeV(c, x.E[i], y.E[i])
		}
		return ArrayV{e}
	case TupleV:
		y := b.(TupleV)
		if len(x.E) != len(y.E) {
			// the "current entry" cell of a reflect map iterator before its first Next (empty) against a filled one: the
			// cell is only read inside the loop body, right after it was filled
			if len(x.E) == 0 {
				return y
			}
			return x
		}
		e := make([]Value, len(x.E))
		for i := range e {
			e[i] = mergeV(c, x.E[i], y.E[i])
		}
		return TupleV{e}
	case PtrV:
		y := b.(PtrV)
		var alts []PtrAlt
		for _, p := range x.Alts {
			alts = addPtrAlt(alts, PtrAlt{And(c, p.G), p.Obj, p.Path})
		}
		nc := Not(c)
		for _, p := range y.Alts {
			alts = addPtrAlt(alts, PtrAlt{And(nc, p.G), p.Obj, p.Path})
		}
		return PtrV{alts}
	case SliceV:
		y := b.(SliceV)
		var alts []SliceAlt
		for _, p := range x.Alts {
			alts = addSliceAlt(alts, SliceAlt{And(c, p.G), p.Obj, p.Off, p.Len, p.Cap})
		}
		nc := Not(c)
		for _, p := range y.Alts {
			alts = addSliceAlt(alts, SliceAlt{And(nc, p.G), p.Obj, p.Off, p.Len, p.Cap})
		}
		return SliceV{alts}
	case MapV:
		y := b.(MapV)
		var alts []MapAlt
		add := func(m MapAlt) {
			if m.G.IsFalse() {
				return
			}
			for i := range alts {
				if alts[i].Obj == m.Obj {
					alts[i].G = Or(alts[i].G, m.G)
					return
				}
			}
			alts = append(alts, m)
		}
		for _, p := range x.Alts {
			add(MapAlt{And(c, p.G), p.Obj})
		}
		nc := Not(c)
		for _, p := range y.Alts {
			add(MapAlt{And(nc, p.G), p.Obj})
		}
		return MapV{alts}
	case IfaceV:
		y := b.(IfaceV)
		var alts []IfaceAlt
		add := func(m IfaceAlt) {
			if m.G.IsFalse() {
				return
			}
			for i := range alts {
				if alts[i].Typ == nil && m.Typ == nil {
					alts[i].G = Or(alts[i].G, m.G)
					return
				}
				if alts[i].Typ != nil && m.Typ != nil && types.Identical(alts[i].Typ, m.Typ) {
					// merge payloads: under m.G take m.V
					alts[i].V = mergeV(m.G, m.V, alts[i].V)
					alts[i].G = Or(alts[i].G, m.G)
					return
				}
			}
			alts = append(alts, m)
		}
		for _, p := range x.Alts {
			add(IfaceAlt{And(c, p.G), p.Typ, p.V})
		}
		nc := Not(c)
		for _, p := range y.Alts {
			add(IfaceAlt{And(nc, p.G), p.Typ, p.V})
		}
		return IfaceV{alts}
	case FuncV:
		y := b.(FuncV)
		if x.Fn == y.Fn && len(x.Bind) == len(y.Bind) {
			bind := make([]Value, len(x.Bind))
			for i := range bind {
				bind[i] = mergeV(c, x.Bind[i], y.Bind[i])
			}
			return FuncV{x.Fn, bind}
		}
		return PoisonV{"merge of distinct funcs"}
	case AbsErr:
		y := b.(AbsErr)
		return AbsErr{mergeV(c, x.Msg, y.Msg).(StrV)}
	case IterV:
		if y, ok := b.(IterV); !ok || x.Obj != y.Obj {
			return PoisonV{"merge of distinct iterators (dead register expected)"}
		}
		return x
	case PoisonV:
		return x
	}
	panic(fmt.Sprintf("mergeV: %T", a))
}

func samePath(a, b []int) bool {
	if len(a) != len(b) {
		return false
	}
	for i := range a {
		if a[i] != b[i] {
			return false
		}
	}
	return true
}

func addPtrAlt(alts []PtrAlt, p PtrAlt) []PtrAlt {
	if p.G.IsFalse() {
		return alts
	}
	for i := range alts {
		if alts[i].Obj == p.Obj && samePath(alts[i].Path, p.Path) {
			alts[i].G = Or(alts[i].G, p.G)
			return alts
		}
	}
	return append(alts, p)
}

func addSliceAlt(alts []SliceAlt, p SliceAlt) []SliceAlt {
	if p.G.IsFalse() {
		return alts
	}
	for i := range alts {
		if alts[i].Obj == p.Obj && alts[i].Off == p.Off && alts[i].Cap == p.Cap {
			alts[i].Len = Ite(p.G, p.Len, alts[i].Len)
			alts[i].G = Or(alts[i].G, p.G)
			return alts
		}
	}
	return append(alts, p)
}

// structural get/set along a path inside a cell value
func getPath(v Value, path []int) Value {
	for _, i := range path {
		switch x := v.(type) {
		case StructV:
			v = x.F[i]
		case ArrayV:
			v = x.E[i]
		default:
			panic(fmt.Sprintf("getPath in %T", v))
		}
	}
	return v
}

func setPath(v Value, path []int, nv Value) Value {
	if len(path) == 0 {
		return nv
	}
	switch x := v.(type) {
	case StructV:
		f := append([]Value(nil), x.F...)
		f[path[0]] = setPath(x.F[path[0]], path[1:], nv)
		return StructV{f}
	case ArrayV:
		e := append([]Value(nil), x.E...)
		e[path[0]] = setPath(x.E[path[0]], path[1:], nv)
		return ArrayV{e}
	}
	panic(fmt.Sprintf("setPath in %T", v))
}

// equality term between two values of same type
func eqV(a, b Value) *Term {
	switch x := a.(type) {
	case BoolV:
		return Eq(x.T, b.(BoolV).T)
	case IntV:
		return Eq(x.T, b.(IntV).T)
	case StrV:
		y := b.(StrV)
		if x.B == nil && x.Ch != nil {
			return Ite(x.Ch.C, eqV(x.Ch.A, y), eqV(x.Ch.B, y))
		}
		if y.B == nil && y.Ch != nil {
			return Ite(y.Ch.C, eqV(x, y.Ch.A), eqV(x, y.Ch.B))
		}
		if x.R != nil && y.R != nil {
			return ropeEq(x.R, y.R)
		}
		return eqFlat(fl(x), fl(y))
	case nil:
		return TTrue
	}
	return eqV2(a, b)
}

func eqFlat(x, y StrV) *Term {
	{
		mk1, mk2 := strID(x), strID(y)
		if mk1 > mk2 {
			mk1, mk2 = mk2, mk1
		}
		if r, ok := strEqMemo[[2]string{mk1, mk2}]; ok {
			return r
		}
		defer func() {}()
		r := strEq(x, y)
		strEqMemo[[2]string{mk1, mk2}] = r
		return r
	}
}

var strEqMemo = map[[2]string]*Term{}

func strID(s StrV) string {
	b := make([]byte, 0, 4*(len(s.B)+1))
	put := func(id int) { b = append(b, byte(id), byte(id>>8), byte(id>>16), byte(id>>24)) }
	put(s.Len.id)
	for _, t := range s.B {
		put(t.id)
	}
	return string(b)
}

func strEq(x, y StrV) *Term {
	{
		conj := []*Term{Eq(x.Len, y.Len)}
		n := min(len(x.B), len(y.B))
		for i := 0; i < n; i++ {
			conj = append(conj, Or(Ule(x.Len, BV(64, uint64(i))), Eq(x.B[i], y.B[i])))
		}
		// lengths beyond the shorter capacity are impossible to be equal
		if len(x.B) != len(y.B) {
			conj = append(conj, Ule(x.Len, BV(64, uint64(n))))
		}
		return And(conj...)
	}
}

func eqV2(a, b Value) *Term {
	switch x := a.(type) {
	case StructV:
		y := b.(StructV)
		var conj []*Term
		for i := range x.F {
			conj = append(conj, eqV(x.F[i], y.F[i]))
		}
		return And(conj...)
	case ArrayV:
		y := b.(ArrayV)
		var conj []*Term
		for i := range x.E {
			conj = append(conj, eqV(x.E[i], y.E[i]))
		}
		return And(conj...)
	case PtrV:
		y := b.(PtrV)
		var disj []*Term
		for _, p := range x.Alts {
			for _, q := range y.Alts {
				if p.Obj == q.Obj && samePath(p.Path, q.Path) {
					disj = append(disj, And(p.G, q.G))
				}
			}
		}
		return Or(disj...)
	case MapV:
		y := b.(MapV)
		var disj []*Term
		for _, p := range x.Alts {
			for _, q := range y.Alts {
				if p.Obj == q.Obj {
					disj = append(disj, And(p.G, q.G))
				}
			}
		}
		return Or(disj...)
	case SliceV: // only comparison with nil is legal in Go
		y := b.(SliceV)
		var disj []*Term
		for _, p := range x.Alts {
			for _, q := range y.Alts {
				if p.Obj == -1 && q.Obj == -1 {
					disj = append(disj, And(p.G, q.G))
				}
			}
		}
		return Or(disj...)
	case IfaceV:
		y := b.(IfaceV)
		var disj []*Term
		for _, p := range x.Alts {
			for _, q := range y.Alts {
				if p.Typ == nil && q.Typ == nil {
					disj = append(disj, And(p.G, q.G))
				} else if p.Typ != nil && q.Typ != nil && types.Identical(p.Typ, q.Typ) {
					disj = append(disj, And(p.G, q.G, eqV(p.V, q.V)))
				}
			}
		}
		return Or(disj...)
	case FuncV:
		y := b.(FuncV)
		return BoolC(x.Fn == nil && y.Fn == nil)
	}
	panic(fmt.Sprintf("eqV: %T", a))
}


// identical: O(1) check that two immutable values share their representation
func identical(a, b Value) bool {
	switch x := a.(type) {
	case BoolV:
		y, ok := b.(BoolV)
		return ok && x.T == y.T
	case IntV:
		y, ok := b.(IntV)
		return ok && x.T == y.T
	case StrV:
		y, ok := b.(StrV)
		if ok && x.R != nil && x.R == y.R {
			return true
		}
		if ok && x.Ch != nil && x.Ch == y.Ch {
			return true
		}
		return ok && x.B != nil && y.B != nil && x.Len == y.Len && len(x.B) == len(y.B) && (len(x.B) == 0 || &x.B[0] == &y.B[0])
	case StructV:
		y, ok := b.(StructV)
		return ok && len(x.F) == len(y.F) && len(x.F) > 0 && &x.F[0] == &y.F[0]
	case ArrayV:
		y, ok := b.(ArrayV)
		return ok && len(x.E) == len(y.E) && len(x.E) > 0 && &x.E[0] == &y.E[0]
	case TupleV:
		y, ok := b.(TupleV)
		return ok && len(x.E) == len(y.E) && len(x.E) > 0 && &x.E[0] == &y.E[0]
	case PtrV:
		y, ok := b.(PtrV)
		return ok && len(x.Alts) == len(y.Alts) && len(x.Alts) > 0 && &x.Alts[0] == &y.Alts[0]
	case SliceV:
		y, ok := b.(SliceV)
		return ok && len(x.Alts) == len(y.Alts) && len(x.Alts) > 0 && &x.Alts[0] == &y.Alts[0]
	case MapV:
		y, ok := b.(MapV)
		return ok && len(x.Alts) == len(y.Alts) && len(x.Alts) > 0 && &x.Alts[0] == &y.Alts[0]
	case IfaceV:
		y, ok := b.(IfaceV)
		return ok && len(x.Alts) == len(y.Alts) && len(x.Alts) > 0 && &x.Alts[0] == &y.Alts[0]
	case IterV:
		y, ok := b.(IterV)
		return ok && x.Obj == y.Obj
	}
	return false
}

// appThunk: the positional content of an appended slice = base elements, then tail elements from position len(base).
type thunkAlt struct {
	G   *Term
	O   *Obj // nil = nil slice
	Off int
	Len *Term
	Cap int
}
type appThunk struct {
	Base, Tail []thunkAlt
	StrTail    *StrV
}

type strAlt struct {
	G *Term
	S StrV
}

func sameLeaf(a, b StrV) bool {
	if ca, ok := a.Concrete(); ok {
		cb, ok2 := b.Concrete()
		return ok2 && ca == cb
	}
	if a.R != nil && a.R == b.R {
		return true
	}
	return false
}

// strAlts flattens a (possibly nested) lazily merged string into guarded leaves, merging equal leaves.
func strAlts(s StrV, g *Term, out *[]strAlt) {
	if g.IsFalse() {
		return
	}
	if s.B == nil && s.Ch != nil {
		strAlts(s.Ch.A, And(g, s.Ch.C), out)
		strAlts(s.Ch.B, And(g, Not(s.Ch.C)), out)
		return
	}
	for i := range *out {
		if sameLeaf((*out)[i].S, s) {
			(*out)[i].G = Or((*out)[i].G, g)
			return
		}
	}
	*out = append(*out, strAlt{g, s})
}

// mkChoice builds ite(g1, s1, ite(g2, s2, ... sk)) from mutually exclusive, exhaustive alternatives.
func mkChoice(alts []strAlt) StrV {
	if len(alts) == 0 {
		return StrC("")
	}
	res := alts[len(alts)-1].S
	for i := len(alts) - 2; i >= 0; i-- {
		a := alts[i]
		if a.G.IsTrue() {
			res = a.S
			continue
		}
		res = StrV{Len: Ite(a.G, a.S.Len, res.Len), Ch: &strChoice{C: a.G, A: a.S, B: res}}
	}
	return res
}

var DebugFlat = os.Getenv("SYMGO_DEBUG_FLAT") != ""
var curFn string

// promoteConst gives a concrete flat string its rope view back (constants are always structured)
func promoteConst(s StrV) StrV {
	if s.R == nil && s.Ch == nil {
		if cs, ok := s.Concrete(); ok {
			return StrC(cs)
		}
	}
	return s
}
