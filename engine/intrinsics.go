package main

import (
	"fmt"
	"go/types"

	"golang.org/x/tools/go/ssa"
)

func concreteStr(v Value) string {
	s, ok := v.(StrV).Concrete()
	if !ok {
		unsup("nondet name must be a constant string")
	}
	return s
}

func (e *Engine) installIntrinsics(pkgPath string) {
	p := pkgPath + "."
	e.intercept[p+"vrfBool"] = func(e *Engine, fr *Frame, c *Ctx, a []Value, _ *ssa.CallCommon) (Value, bool) {
		return BoolV{Var("b!"+concreteStr(a[0]), 0)}, true
	}
	e.intercept[p+"vrfInt"] = func(e *Engine, fr *Frame, c *Ctx, a []Value, _ *ssa.CallCommon) (Value, bool) {
		v := Var("i!"+concreteStr(a[0]), 64)
		lo, hi := a[1].(IntV).T, a[2].(IntV).T
		v.hasIv, v.lo, v.hi = true, lo.val, hi.val
		c.S.PC = And(c.S.PC, mk(&Term{op: OSle, args: []*Term{lo, v}}), mk(&Term{op: OSle, args: []*Term{v, hi}}))
		return IntV{v}, true
	}
	e.intercept[p+"vrfStr"] = func(e *Engine, fr *Frame, c *Ctx, a []Value, _ *ssa.CallCommon) (Value, bool) {
		name := concreteStr(a[0])
		n := int(a[1].(IntV).T.val)
		if s, ok := e.strVars[name]; ok {
			c.S.PC = And(c.S.PC, mk(&Term{op: OUle, args: []*Term{s.Len, BV(64, uint64(n))}}))
			return s, true
		}
		ln := Var("s!"+name+"!len", 64)
		ln.hasIv, ln.lo, ln.hi = true, 0, uint64(n)
		c.S.PC = And(c.S.PC, mk(&Term{op: OUle, args: []*Term{ln, BV(64, uint64(n))}}))
		b := make([]*Term, n)
		for i := range b {
			b[i] = Var(fmt.Sprintf("s!%s!%d", name, i), 8)
		}
		s := StrV{Len: ln, B: b}
		e.strVars[name] = s
		return s, true
	}
	nilFunc := func(e *Engine, fr *Frame, c *Ctx, a []Value, _ *ssa.CallCommon) (Value, bool) { return FuncV{}, true }
	e.intercept["github.com/go-openapi/analysis/internal/debug.GetLogger"] = nilFunc
	e.intercept["os.Getenv"] = func(e *Engine, fr *Frame, c *Ctx, a []Value, _ *ssa.CallCommon) (Value, bool) { return StrC(""), true }
	e.intercept[p+"vrfParam"] = func(e *Engine, fr *Frame, c *Ctx, a []Value, _ *ssa.CallCommon) (Value, bool) {
		if v, ok := e.Params[concreteStr(a[0])]; ok {
			return IntV{BV(64, uint64(int64(v)))}, true
		}
		return a[1], true
	}
	e.intercept[p+"vrfRegister"] = func(e *Engine, fr *Frame, c *Ctx, a []Value, _ *ssa.CallCommon) (Value, bool) {
		return BoolV{TTrue}, true
	}
	e.intercept[p+"vrfKnown"] = func(e *Engine, fr *Frame, c *Ctx, a []Value, _ *ssa.CallCommon) (Value, bool) {
		key := concreteStr(a[0])
		if !e.OpenKeys[key] {
			return nil, true
		}
		cond := a[1].(BoolV).T
		if e.KnownMode == "confirm:"+key {
			c.S.PC = And(c.S.PC, cond)
		} else {
			c.S.PC = And(c.S.PC, Not(cond))
		}
		return nil, !c.S.PC.IsFalse()
	}
	e.intercept[p+"vrfEager"] = func(e *Engine, fr *Frame, c *Ctx, a []Value, _ *ssa.CallCommon) (Value, bool) {
		e.eager[concreteStr(a[0])] = true
		return nil, true
	}
	e.intercept[p+"vrfMapOrder"] = func(e *Engine, fr *Frame, c *Ctx, a []Value, _ *ssa.CallCommon) (Value, bool) {
		// "" = fixed (log) order; any other label = symbolic permutation with variables named after the label
		e.MapOrderLabel = concreteStr(a[0])
		e.MapOrderND = e.MapOrderLabel != ""
		return nil, true
	}
	e.intercept[p+"vrfTrials"] = func(e *Engine, fr *Frame, c *Ctx, a []Value, _ *ssa.CallCommon) (Value, bool) {
		return IntV{BV(64, 2)}, true
	}
	e.intercept[p+"vrfFreeze"] = func(e *Engine, fr *Frame, c *Ctx, a []Value, _ *ssa.CallCommon) (Value, bool) {
		e.frozen = e.nextObj
		return nil, true
	}
	e.intercept[p+"vrfConcurrently"] = func(e *Engine, fr *Frame, c *Ctx, a []Value, _ *ssa.CallCommon) (Value, bool) {
		fv := a[0].(FuncV)
		_, nc := e.call(fr, c, fv.Fn, nil, fv.Bind)
		if nc == nil {
			return nil, false
		}
		c.S = nc.S
		return nil, true
	}
	e.intercept[p+"vrfThaw"] = func(e *Engine, fr *Frame, c *Ctx, a []Value, _ *ssa.CallCommon) (Value, bool) {
		e.frozen = 0
		return nil, true
	}
	e.intercept[p+"vrfAssume"] = func(e *Engine, fr *Frame, c *Ctx, a []Value, _ *ssa.CallCommon) (Value, bool) {
		c.S.PC = And(c.S.PC, a[0].(BoolV).T)
		return nil, !c.S.PC.IsFalse()
	}
	e.intercept[p+"vrfAssert"] = func(e *Engine, fr *Frame, c *Ctx, a []Value, _ *ssa.CallCommon) (Value, bool) {
		e.Obls = append(e.Obls, Obligation{Kind: "assert", ID: concreteStr(a[0]), Cond: And(c.S.PC, Not(a[1].(BoolV).T))})
		return nil, true
	}
	e.intercept[p+"vrfCover"] = func(e *Engine, fr *Frame, c *Ctx, a []Value, _ *ssa.CallCommon) (Value, bool) {
		e.Obls = append(e.Obls, Obligation{Kind: "cover", ID: concreteStr(a[0]), Cond: And(c.S.PC, a[1].(BoolV).T)})
		return nil, true
	}
	e.intercept[p+"vrfPanics"] = func(e *Engine, fr *Frame, c *Ctx, a []Value, _ *ssa.CallCommon) (Value, bool) {
		fv := a[0].(FuncV)
		e.catchers = append(e.catchers, nil)
		pc0 := c.S.PC
		_, nc := e.call(fr, c, fv.Fn, nil, fv.Bind)
		caught := e.catchers[len(e.catchers)-1]
		e.catchers = e.catchers[:len(e.catchers)-1]
		var m *Ctx
		if nc != nil {
			m = &Ctx{S: nc.S, Regs: map[ssa.Value]Value{}}
		}
		panicked := TFalse
		for _, pc := range caught {
			panicked = Or(panicked, pc.S.PC)
			pcx := &Ctx{S: pc.S, Regs: map[ssa.Value]Value{}}
			if m == nil {
				m = pcx
			} else {
				m = e.mergeCtx(pc.S.PC, pcx, m, nil)
			}
		}
		if m == nil {
			return nil, false
		}
		_ = pc0
		c.S = m.S
		return BoolV{panicked}, true
	}
	e.intercept[p+"vrfDeepCopy"] = func(e *Engine, fr *Frame, c *Ctx, a []Value, _ *ssa.CallCommon) (Value, bool) {
		return e.deepCopy(c, a[0], map[int]int{}), true
	}
	e.intercept[p+"vrfSameMultiset"] = func(e *Engine, fr *Frame, c *Ctx, a []Value, _ *ssa.CallCommon) (Value, bool) {
		sl := func(v Value) []ListEntry {
			iv := v.(IfaceV)
			if len(iv.Alts) != 1 || iv.Alts[0].Typ == nil {
				unsup("vrfSameMultiset: argument must be a slice of one static type")
			}
			et := iv.Alts[0].Typ.Underlying().(*types.Slice).Elem()
			return e.listView(c, iv.Alts[0].V.(SliceV), et)
		}
		la, lb := sl(a[0]), sl(a[1])
		seen := map[[2]int]bool{}
		// count(x in a) == count(x in b) for every present element x of a or b
		all := append(append([]ListEntry(nil), la...), lb...)
		na := len(la)
		eq := make([][]*Term, len(all))
		for i := range all {
			eq[i] = make([]*Term, len(all))
		}
		for i := range all {
			eq[i][i] = TTrue
			for j := i + 1; j < len(all); j++ {
				t := e.deepEqual(c, all[i].V, all[j].V, seen)
				eq[i][j], eq[j][i] = t, t
			}
		}
		count := func(i, from, to int) *Term {
			var t *Term = BV(8, 0)
			for j := from; j < to; j++ {
				g := And(all[j].G, eq[i][j])
				if g.IsFalse() {
					continue
				}
				t = Add(t, Ite(g, BV(8, 1), BV(8, 0)))
			}
			return t
		}
		var conj []*Term
		for i, x := range all {
			if x.G.IsFalse() {
				continue
			}
			conj = append(conj, Or(Not(x.G), Eq(count(i, 0, na), count(i, na, len(all)))))
		}
		return BoolV{And(conj...)}, true
	}
	// vrfSameSet: every element of a occurs in b and vice versa (multiplicities ignored); vrfNoDup: a has no repeated element
	listArg := func(e *Engine, c *Ctx, v Value) []ListEntry {
		iv := v.(IfaceV)
		if len(iv.Alts) != 1 || iv.Alts[0].Typ == nil {
			unsup("list intrinsic: argument must be a slice of one static type")
		}
		et := iv.Alts[0].Typ.Underlying().(*types.Slice).Elem()
		return e.listView(c, iv.Alts[0].V.(SliceV), et)
	}
	e.intercept[p+"vrfSameSet"] = func(e *Engine, fr *Frame, c *Ctx, a []Value, _ *ssa.CallCommon) (Value, bool) {
		la, lb := listArg(e, c, a[0]), listArg(e, c, a[1])
		var conj []*Term
		sub := func(x, y []ListEntry) {
			for _, en := range x {
				var disj []*Term
				for _, o := range y {
					disj = append(disj, And(o.G, e.deepEqual(c, en.V, o.V, map[[2]int]bool{})))
				}
				conj = append(conj, Or(Not(en.G), Or(disj...)))
			}
		}
		sub(la, lb)
		sub(lb, la)
		return BoolV{And(conj...)}, true
	}
	e.intercept[p+"vrfNoDup"] = func(e *Engine, fr *Frame, c *Ctx, a []Value, _ *ssa.CallCommon) (Value, bool) {
		la := listArg(e, c, a[0])
		var conj []*Term
		for i := range la {
			for j := i + 1; j < len(la); j++ {
				conj = append(conj, Not(And(la[i].G, la[j].G, e.deepEqual(c, la[i].V, la[j].V, map[[2]int]bool{}))))
			}
		}
		return BoolV{And(conj...)}, true
	}
	e.intercept[p+"vrfDeepEqual"] = func(e *Engine, fr *Frame, c *Ctx, a []Value, _ *ssa.CallCommon) (Value, bool) {
		return BoolV{e.deepEqual(c, a[0], a[1], map[[2]int]bool{})}, true
	}
}

func (e *Engine) copyObj(c *Ctx, id int, memo map[int]int) int {
	if id == -1 {
		return -1
	}
	if n, ok := memo[id]; ok {
		return n
	}
	o := c.S.Heap[id]
	no := &Obj{IsMap: o.IsMap}
	nid := e.newObj(c, no)
	memo[id] = nid
	if o.IsMap {
		for _, en := range o.Log {
			ne := MapEntry{G: en.G, K: en.K, Tomb: en.Tomb}
			if !en.Tomb {
				ne.V = e.deepCopy(c, en.V, memo)
			}
			no.Log = append(no.Log, ne)
		}
	} else {
		materialise(o)
		no.Val = e.deepCopy(c, o.Val, memo)
	}
	return nid
}

func (e *Engine) deepCopy(c *Ctx, v Value, memo map[int]int) Value {
	switch x := v.(type) {
	case StructV:
		f := make([]Value, len(x.F))
		for i := range f {
			f[i] = e.deepCopy(c, x.F[i], memo)
		}
		return StructV{f}
	case ArrayV:
		f := make([]Value, len(x.E))
		for i := range f {
			f[i] = e.deepCopy(c, x.E[i], memo)
		}
		return ArrayV{f}
	case PtrV:
		var alts []PtrAlt
		for _, a := range x.Alts {
			alts = append(alts, PtrAlt{a.G, e.copyObj(c, a.Obj, memo), a.Path})
		}
		return PtrV{alts}
	case SliceV:
		var alts []SliceAlt
		for _, a := range x.Alts {
			alts = append(alts, SliceAlt{a.G, e.copyObj(c, a.Obj, memo), a.Off, a.Len, a.Cap})
		}
		return SliceV{alts}
	case MapV:
		var alts []MapAlt
		for _, a := range x.Alts {
			alts = append(alts, MapAlt{a.G, e.copyObj(c, a.Obj, memo)})
		}
		return MapV{alts}
	case IfaceV:
		var alts []IfaceAlt
		for _, a := range x.Alts {
			na := IfaceAlt{G: a.G, Typ: a.Typ}
			if a.Typ != nil {
				na.V = e.deepCopy(c, a.V, memo)
			}
			alts = append(alts, na)
		}
		return IfaceV{alts}
	}
	return v
}

func (e *Engine) deepEqual(c *Ctx, a, b Value, seen map[[2]int]bool) *Term {
	switch x := a.(type) {
	case BoolV, IntV, StrV, FuncV:
		return eqV(a, b)
	case StructV:
		y := b.(StructV)
		var conj []*Term
		for i := range x.F {
			conj = append(conj, e.deepEqual(c, x.F[i], y.F[i], seen))
		}
		return And(conj...)
	case ArrayV:
		y := b.(ArrayV)
		var conj []*Term
		for i := range x.E {
			conj = append(conj, e.deepEqual(c, x.E[i], y.E[i], seen))
		}
		return And(conj...)
	case PtrV:
		y := b.(PtrV)
		var disj []*Term
		for _, p := range x.Alts {
			for _, q := range y.Alts {
				g := And(p.G, q.G)
				if g.IsFalse() {
					continue
				}
				switch {
				case p.Obj == -1 && q.Obj == -1:
					disj = append(disj, g)
				case p.Obj == -1 || q.Obj == -1:
				default:
					k := [2]int{p.Obj, q.Obj}
					if seen[k] && len(p.Path) == 0 && len(q.Path) == 0 {
						disj = append(disj, g)
						continue
					}
					if p.Obj == q.Obj && samePath(p.Path, q.Path) {
						disj = append(disj, g) // the same location
						continue
					}
					whole := len(p.Path) == 0 && len(q.Path) == 0
					if whole {
						seen[k] = true // in progress: only cycles are cut (coinductive equality)
					}
					va := getPath(c.S.Heap[p.Obj].Val, p.Path)
					vb := getPath(c.S.Heap[q.Obj].Val, q.Path)
					disj = append(disj, And(g, e.deepEqual(c, va, vb, seen)))
					if whole {
						delete(seen, k)
					}
				}
			}
		}
		return Or(disj...)
	case SliceV:
		y := b.(SliceV)
		var disj []*Term
		for _, p := range x.Alts {
			for _, q := range y.Alts {
				g := And(p.G, q.G)
				if g.IsFalse() {
					continue
				}
				switch {
				case p.Obj == -1 && q.Obj == -1:
					disj = append(disj, g)
				case p.Obj == -1 || q.Obj == -1:
				default:
					conj := []*Term{g, Eq(p.Len, q.Len)}
					ea := e.arr(c, p.Obj).E
					eb := e.arr(c, q.Obj).E
					for i := 0; i < p.Cap && i < q.Cap; i++ {
						conj = append(conj, Or(Ule(p.Len, BV(64, uint64(i))), e.deepEqual(c, ea[p.Off+i], eb[q.Off+i], seen)))
					}
					disj = append(disj, And(conj...))
				}
			}
		}
		return Or(disj...)
	case MapV:
		y := b.(MapV)
		var disj []*Term
		for _, p := range x.Alts {
			for _, q := range y.Alts {
				g := And(p.G, q.G)
				if g.IsFalse() {
					continue
				}
				switch {
				case p.Obj == -1 && q.Obj == -1:
					disj = append(disj, g)
				case p.Obj == -1 || q.Obj == -1:
				default:
					disj = append(disj, And(g, e.mapSubset(c, p.Obj, q.Obj, seen), e.mapSubset(c, q.Obj, p.Obj, seen)))
				}
			}
		}
		return Or(disj...)
	case IfaceV:
		y := b.(IfaceV)
		var disj []*Term
		for _, p := range x.Alts {
			for _, q := range y.Alts {
				g := And(p.G, q.G)
				if g.IsFalse() {
					continue
				}
				if p.Typ == nil && q.Typ == nil {
					disj = append(disj, g)
				} else if p.Typ != nil && q.Typ != nil && types.Identical(p.Typ, q.Typ) {
					disj = append(disj, And(g, e.deepEqual(c, p.V, q.V, seen)))
				}
			}
		}
		return Or(disj...)
	case nil:
		return BoolC(b == nil)
	}
	panic(fmt.Sprintf("deepEqual %T", a))
}

// mapLive: per log entry, the condition under which it is the live binding of its key (cached per immutable Obj).
func (e *Engine) mapLive(o *Obj) []*Term {
	if e.liveCache == nil {
		e.liveCache = map[*Obj][]*Term{}
	}
	if l, ok := e.liveCache[o]; ok {
		return l
	}
	log := o.Log
	out := make([]*Term, len(log))
	for i, en := range log {
		if en.Tomb || en.G.IsFalse() {
			out[i] = TFalse
			continue
		}
		conj := []*Term{en.G}
		dead := false
		for j := i + 1; j < len(log); j++ {
			if log[j].G.IsFalse() {
				continue
			}
			same := eqV(en.K, log[j].K)
			if same.IsFalse() {
				continue
			}
			over := And(log[j].G, same)
			if over.IsTrue() {
				dead = true
				break
			}
			conj = append(conj, Not(over))
		}
		if dead {
			out[i] = TFalse
		} else {
			out[i] = And(conj...)
		}
	}
	e.liveCache[o] = out
	return out
}

// every live entry of map a is present in b with a deep-equal value
func (e *Engine) mapSubset(c *Ctx, a, b int, seen map[[2]int]bool) *Term {
	oa, ob := c.S.Heap[a], c.S.Heap[b]
	la, lb := e.mapLive(oa), e.mapLive(ob)
	var conj []*Term
	for i, en := range oa.Log {
		if la[i].IsFalse() {
			continue
		}
		var disj []*Term
		for bi, be := range ob.Log {
			if lb[bi].IsFalse() {
				continue
			}
			same := eqV(en.K, be.K)
			if same.IsFalse() {
				continue
			}
			disj = append(disj, And(lb[bi], same, e.deepEqual(c, en.V, be.V, seen)))
		}
		conj = append(conj, Or(Not(la[i]), Or(disj...)))
	}
	return And(conj...)
}
