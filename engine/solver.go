package main

import (
	"os"
	"bufio"
	"fmt"
	"io"
	"os/exec"
	"strings"
	"time"
)

var DumpDir string
var PipeSolver = "z3-new"
var dumpN int
var Timeout = 60

type Solver struct {
	cmd     *exec.Cmd
	in      io.WriteCloser
	out     *bufio.Reader
	emitted map[int]bool
	vars    []*Term
	Queries int
	Time    time.Duration
	cache   map[int]string // term id -> result of check(term) under no extra assumptions
	log     *strings.Builder
}

func NewSolver() *Solver {
	cmd := exec.Command(PipeSolver, "-in", "-smt2")
	in, _ := cmd.StdinPipe()
	out, _ := cmd.StdoutPipe()
	if err := cmd.Start(); err != nil {
		panic(err)
	}
	s := &Solver{cmd: cmd, in: in, out: bufio.NewReader(out), emitted: map[int]bool{}, cache: map[int]string{}, log: &strings.Builder{}}
	s.send("(set-option :produce-models true)")
	return s
}

func (s *Solver) send(line string) {
	s.log.WriteString(line)
	s.log.WriteString("\n")
	io.WriteString(s.in, line+"\n")
}

func (s *Solver) emit(t *Term) {
	if s.emitted[t.id] {
		return
	}
	s.emitted[t.id] = true
	switch t.op {
	case OConst:
		return
	case OVar:
		s.vars = append(s.vars, t)
		s.send(fmt.Sprintf("(declare-const %s %s)", t.ref(), sortStr(t)))
		return
	}
	for _, a := range t.args {
		s.emit(a)
	}
	s.send(fmt.Sprintf("(define-fun %s () %s %s)", t.ref(), sortStr(t), t.body()))
}

// Check satisfiability of conjunction of lits (Bool terms).
func (s *Solver) Check(lits ...*Term) string {
	c := And(lits...)
	if c.IsFalse() {
		return "unsat"
	}
	if c.IsTrue() {
		return "sat"
	}
	if r, ok := s.cache[c.id]; ok {
		return r
	}
	s.emit(c)
	t0 := time.Now()
	s.send(fmt.Sprintf("(check-sat-assuming (%s))", c.ref()))
	line, err := s.out.ReadString('\n')
	s.Time += time.Since(t0)
	s.Queries++
	if d := time.Since(t0); d > 2*time.Second || s.Queries%100 == 0 {
		fmt.Printf("    [pipe] query %d took %.2fs (cum %.1fs), terms %d\n", s.Queries, d.Seconds(), s.Time.Seconds(), len(termList))
	}
	if err != nil {
		panic(err)
	}
	r := strings.TrimSpace(line)
	if strings.HasPrefix(r, "(error") {
		panic("solver error: " + r)
	}
	s.cache[c.id] = r
	return r
}

// Model values for all declared vars (after a sat Check).
func (s *Solver) Model() map[string]uint64 {
	m := map[string]uint64{}
	for _, v := range s.vars {
		s.send(fmt.Sprintf("(get-value (%s))", v.ref()))
		line, _ := s.out.ReadString('\n')
		line = strings.TrimSpace(line)
		// ((|x| #x00)) or ((|x| true))
		i := strings.LastIndex(line, " ")
		val := strings.TrimRight(line[i+1:], ")")
		var u uint64
		switch {
		case val == "true":
			u = 1
		case val == "false":
			u = 0
		case strings.HasPrefix(val, "#x"):
			fmt.Sscanf(val[2:], "%x", &u)
		case strings.HasPrefix(val, "#b"):
			fmt.Sscanf(val[2:], "%b", &u)
		}
		m[v.name] = u
	}
	return m
}

func (s *Solver) Close() {
	s.send("(exit)")
	s.cmd.Wait()
}

// Standalone solves cond in a fresh z3 process (non-incremental), returning result and model text.
func Standalone(cond *Term, solver string, wantModel bool) (string, map[string]uint64, time.Duration) {
	var sb strings.Builder
	sb.WriteString("(set-logic QF_BV)\n")
	seen := map[int]bool{}
	var vars []*Term
	var emit func(t *Term)
	emit = func(t *Term) {
		if seen[t.id] {
			return
		}
		seen[t.id] = true
		switch t.op {
		case OConst:
			return
		case OVar:
			vars = append(vars, t)
			fmt.Fprintf(&sb, "(declare-const %s %s)\n", t.ref(), sortStr(t))
			return
		}
		for _, a := range t.args {
			emit(a)
		}
		fmt.Fprintf(&sb, "(define-fun %s () %s %s)\n", t.ref(), sortStr(t), t.body())
	}
	emit(cond)
	fmt.Fprintf(&sb, "(assert %s)\n(check-sat)\n", cond.ref())
	if wantModel {
		for _, v := range vars {
			fmt.Fprintf(&sb, "(get-value (%s))\n", v.ref())
		}
	}
	if DumpDir != "" {
		dumpN++
		os.WriteFile(fmt.Sprintf("%s/obl%03d.smt2", DumpDir, dumpN), []byte(sb.String()), 0o644)
	}
	t0 := time.Now()
	args := []string{"-in", "-smt2", "-T:" + fmt.Sprint(Timeout)}
	if solver == "cvc5" {
		args = []string{"--lang=smt2", "--produce-models"}
	}
	cmd := exec.Command(solver, args...)
	in := sb.String()
	if wantModel {
		in = "(set-option :produce-models true)\n" + in
	}
	cmd.Stdin = strings.NewReader(in)
	out, _ := cmd.Output()
	d := time.Since(t0)
	lines := strings.Split(strings.TrimSpace(string(out)), "\n")
	res := lines[0]
	m := map[string]uint64{}
	if res == "sat" && wantModel {
		for i, v := range vars {
			if i+1 >= len(lines) {
				break
			}
			line := strings.TrimSpace(lines[i+1])
			j := strings.LastIndex(line, " ")
			val := strings.TrimRight(line[j+1:], ")")
			var u uint64
			switch {
			case val == "true":
				u = 1
			case strings.HasPrefix(val, "#x"):
				fmt.Sscanf(val[2:], "%x", &u)
			case strings.HasPrefix(val, "#b"):
				fmt.Sscanf(val[2:], "%b", &u)
			}
			m[v.name] = u
		}
	}
	return res, m, d
}
