package main

import (
	"sync"
	"os"
	"bufio"
	"fmt"
	"io"
	"os/exec"
	"strings"
	"time"
)

var DumpDir string
var PipeSolver = "z3-new"
var dumpN int
var Timeout = 60

type Solver struct {
	cmd     *exec.Cmd
	in      io.WriteCloser
	out     *bufio.Reader
	emitted map[int]bool
	vars    []*Term
	Queries int
	Time    time.Duration
	cache   map[int]string // term id -> result of check(term) under no extra assumptions
	log     *strings.Builder
}

func NewSolver() *Solver {
	cmd := exec.Command(PipeSolver, "-in", "-smt2")
	in, _ := cmd.StdinPipe()
	out, _ := cmd.StdoutPipe()
	if err := cmd.Start(); err != nil {
		panic(err)
	}
	s := &Solver{cmd: cmd, in: in, out: bufio.NewReader(out), emitted: map[int]bool{}, cache: map[int]string{}, log: &strings.Builder{}}
	s.send("(set-option :produce-models true)")
	s.send("(set-option :timeout 2000)")
	return s
}

func (s *Solver) send(line string) {
	s.log.WriteString(line)
	s.log.WriteString("\n")
	io.WriteString(s.in, line+"\n")
}

func (s *Solver) emit(t *Term) {
	if s.emitted[t.id] {
		return
	}
	s.emitted[t.id] = true
	switch t.op {
	case OConst:
		return
	case OVar:
		s.vars = append(s.vars, t)
		s.send(fmt.Sprintf("(declare-const %s %s)", t.ref(), sortStr(t)))
		return
	}
	for _, a := range t.args {
		s.emit(a)
	}
	s.send(fmt.Sprintf("(define-fun %s () %s %s)", t.ref(), sortStr(t), t.body()))
}

// Check satisfiability of conjunction of lits (Bool terms).
func (s *Solver) Check(lits ...*Term) string {
	c := And(lits...)
	if c.IsFalse() {
		return "unsat"
	}
	if c.IsTrue() {
		return "sat"
	}
	if r, ok := s.cache[c.id]; ok {
		return r
	}
	s.emit(c)
	t0 := time.Now()
	s.send(fmt.Sprintf("(check-sat-assuming (%s))", c.ref()))
	line, err := s.out.ReadString('\n')
	s.Time += time.Since(t0)
	s.Queries++
	if d := time.Since(t0); d > 2*time.Second || s.Queries%100 == 0 {
		fmt.Printf("    [pipe] query %d took %.2fs (cum %.1fs), terms %d\n", s.Queries, d.Seconds(), s.Time.Seconds(), len(termList))
	}
	if err != nil {
		panic(err)
	}
	r := strings.TrimSpace(line)
	if strings.HasPrefix(r, "(error") {
		panic("solver error: " + r)
	}
	s.cache[c.id] = r
	return r
}

// Model values for all declared vars (after a sat Check).
func (s *Solver) Model() map[string]uint64 {
	m := map[string]uint64{}
	for _, v := range s.vars {
		s.send(fmt.Sprintf("(get-value (%s))", v.ref()))
		line, _ := s.out.ReadString('\n')
		line = strings.TrimSpace(line)
		// ((|x| #x00)) or ((|x| true))
		i := strings.LastIndex(line, " ")
		val := strings.TrimRight(line[i+1:], ")")
		var u uint64
		switch {
		case val == "true":
			u = 1
		case val == "false":
			u = 0
		case strings.HasPrefix(val, "#x"):
			fmt.Sscanf(val[2:], "%x", &u)
		case strings.HasPrefix(val, "#b"):
			fmt.Sscanf(val[2:], "%b", &u)
		}
		m[v.name] = u
	}
	return m
}

func (s *Solver) Close() {
	s.send("(exit)")
	s.cmd.Wait()
}

// smtScript renders cond (cone of influence only) as a standalone SMT-LIB2 script.
func smtScript(cond *Term, wantModel bool) (string, []*Term) {
	var sb strings.Builder
	if wantModel {
		sb.WriteString("(set-option :produce-models true)\n")
	}
	sb.WriteString("(set-logic QF_BV)\n")
	seen := map[int]bool{}
	var vars []*Term
	// iterative post-order (deep terms would overflow a recursive walk only in theory; keep it simple but safe)
	type fr struct {
		t *Term
		i int
	}
	stack := []fr{{cond, 0}}
	for len(stack) > 0 {
		top := &stack[len(stack)-1]
		t := top.t
		if top.i == 0 && seen[t.id] {
			stack = stack[:len(stack)-1]
			continue
		}
		if t.op == OConst {
			seen[t.id] = true
			stack = stack[:len(stack)-1]
			continue
		}
		if t.op == OVar {
			seen[t.id] = true
			vars = append(vars, t)
			fmt.Fprintf(&sb, "(declare-const %s %s)\n", t.ref(), sortStr(t))
			stack = stack[:len(stack)-1]
			continue
		}
		if top.i < len(t.args) {
			a := t.args[top.i]
			top.i++
			if !seen[a.id] {
				stack = append(stack, fr{a, 0})
			}
			continue
		}
		seen[t.id] = true
		fmt.Fprintf(&sb, "(define-fun %s () %s %s)\n", t.ref(), sortStr(t), t.body())
		stack = stack[:len(stack)-1]
	}
	fmt.Fprintf(&sb, "(assert %s)\n(check-sat)\n", cond.ref())
	if wantModel {
		for _, v := range vars {
			fmt.Fprintf(&sb, "(get-value (%s))\n", v.ref())
		}
	}
	return sb.String(), vars
}

var dumpMu sync.Mutex

// solveScript runs one solver process on the script. Any "(error" line makes the answer "error".
func solveScript(smt string, vars []*Term, solver string, timeout int) (string, map[string]uint64, time.Duration) {
	return solveScriptCancel(smt, vars, solver, timeout, nil)
}

func solveScriptCancel(smt string, vars []*Term, solver string, timeout int, cancel chan struct{}) (string, map[string]uint64, time.Duration) {
	if DumpDir != "" {
		dumpMu.Lock()
		dumpN++
		os.WriteFile(fmt.Sprintf("%s/obl%03d.smt2", DumpDir, dumpN), []byte(smt), 0o644)
		dumpMu.Unlock()
	}
	t0 := time.Now()
	var args []string
	switch solver {
	case "cvc5":
		args = []string{"--lang=smt2", "--produce-models", fmt.Sprintf("--tlimit=%d", timeout*1000)}
	default:
		args = []string{"-in", "-smt2", "-T:" + fmt.Sprint(timeout)}
	}
	cmd := exec.Command(solver, args...)
	cmd.Stdin = strings.NewReader(smt)
	var outBuf strings.Builder
	cmd.Stdout = &outBuf
	if err := cmd.Start(); err != nil {
		return "error", nil, 0
	}
	done := make(chan struct{})
	if cancel != nil {
		go func() {
			select {
			case <-cancel:
				cmd.Process.Kill()
			case <-done:
			}
		}()
	}
	cmd.Wait()
	close(done)
	out := []byte(outBuf.String())
	d := time.Since(t0)
	text := strings.TrimSpace(string(out))
	lines := strings.Split(text, "\n")
	res := strings.TrimSpace(lines[0])
	if strings.Contains(text, "(error") && res != "sat" && res != "unsat" {
		return "error", nil, d
	}
	switch res {
	case "sat", "unsat":
	case "timeout", "unknown", "":
		if d >= time.Duration(timeout)*time.Second-time.Second {
			res = "timeout"
		} else if res == "" {
			res = "error"
		}
	default:
		res = "error"
	}
	m := map[string]uint64{}
	if res == "sat" {
		for i, v := range vars {
			if i+1 >= len(lines) {
				break
			}
			line := strings.TrimSpace(lines[i+1])
			if strings.HasPrefix(line, "(error") {
				return "error", nil, d
			}
			j := strings.LastIndex(line, " ")
			val := strings.TrimRight(line[j+1:], ")")
			var u uint64
			switch {
			case val == "true":
				u = 1
			case strings.HasPrefix(val, "#x"):
				fmt.Sscanf(val[2:], "%x", &u)
			case strings.HasPrefix(val, "#b"):
				fmt.Sscanf(val[2:], "%b", &u)
			}
			m[v.name] = u
		}
	}
	return res, m, d
}

// namedScript rewrites the macro-style script (define-fun per shared node) into declared constants with defining
// equalities; some formulas (deep, heavily shared DAGs) are decided orders of magnitude faster in this form.
func namedScript(smt string) string {
	var sb strings.Builder
	for _, line := range strings.Split(smt, "\n") {
		if strings.HasPrefix(line, "(define-fun n") {
			// (define-fun nX () SORT BODY)
			rest := line[len("(define-fun "):]
			sp := strings.Index(rest, " () ")
			name := rest[:sp]
			rest = rest[sp+4:]
			var sort, body string
			if strings.HasPrefix(rest, "Bool ") {
				sort, body = "Bool", rest[5:len(rest)-1]
			} else {
				k := strings.Index(rest, ") ")
				sort, body = rest[:k+1], rest[k+2:len(rest)-1]
			}
			fmt.Fprintf(&sb, "(declare-const %s %s)\n(assert (= %s %s))\n", name, sort, name, body)
			continue
		}
		sb.WriteString(line)
		sb.WriteString("\n")
	}
	return sb.String()
}

// solvePortfolio runs z3 5.1 on the macro-style script and z3 4.8.12 on the named-constant script concurrently and
// returns the first definite answer (both are complete decision procedures for QF_BV; they differ only in speed).
func solvePortfolio(smt string, vars []*Term, timeout int) (string, map[string]uint64, time.Duration, string) {
	type res struct {
		r   string
		m   map[string]uint64
		d   time.Duration
		who string
	}
	ch := make(chan res, 2)
	ctx := make(chan struct{})
	run := func(solver, script, who string) {
		r, m, d := solveScriptCancel(script, vars, solver, timeout, ctx)
		ch <- res{r, m, d, who}
	}
	go run("z3-new", smt, "z3-5.1")
	go run("z3", namedScript(smt), "z3-4.8.12")
	first := <-ch
	if first.r == "sat" || first.r == "unsat" {
		close(ctx)
		return first.r, first.m, first.d, first.who
	}
	second := <-ch
	close(ctx)
	if second.r == "sat" || second.r == "unsat" {
		return second.r, second.m, second.d, second.who
	}
	return first.r, first.m, first.d, first.who
}

// crossCheck re-solves the script with z3 4.8.12 and cvc5; a different definite answer is a disagreement.
func crossCheck(smt string, primary string, timeout int) string {
	var notes []string
	plain := strings.Replace(smt, "(set-option :produce-models true)\n", "", 1)
	if i := strings.Index(plain, "(check-sat)"); i >= 0 {
		plain = plain[:i] + "(check-sat)\n"
	}
	for _, sv := range []string{"z3", "cvc5"} {
		r, _, d := solveScript(plain, nil, sv, timeout)
		tag := fmt.Sprintf("%s=%s(%.1fs)", sv, r, d.Seconds())
		if (r == "sat" || r == "unsat") && (primary == "sat" || primary == "unsat") && r != primary {
			return "DISAGREE " + tag + " vs z3-new=" + primary
		}
		notes = append(notes, tag)
	}
	return strings.Join(notes, " ")
}
