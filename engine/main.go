package main

import (
	"runtime/pprof"
	"flag"
	"fmt"
	"os"
	"sort"
	"strings"
	"time"

	"golang.org/x/tools/go/packages"
	"golang.org/x/tools/go/ssa"
	"golang.org/x/tools/go/ssa/ssautil"
)

func main() {
	harnessFile := flag.String("harness", "", "Go file injected into package analysis")
	entry := flag.String("entry", "", "harness function")
	unwind := flag.Int("unwind", 12, "loop unwinding limit")
	depth := flag.Int("depth", 40, "call depth limit")
	standalone := flag.Bool("standalone", true, "solve obligations in fresh solver processes")
	solverBin := flag.String("solver", "z3", "solver binary for standalone obligations")
	lazy := flag.Bool("lazy", true, "only check branch feasibility inside loops")
	flag.StringVar(&DumpDir, "dump", "", "directory to dump obligations")
	flag.IntVar(&Timeout, "T", 60, "per-obligation timeout (s)")
	flag.StringVar(&PipeSolver, "pipe", "z3-new", "incremental solver binary")
	nofeas := flag.Bool("nofeas", false, "never query the solver during execution")
	prof := flag.String("cpuprofile", "", "cpu profile")
	flag.Parse()
	if *prof != "" {
		f, _ := os.Create(*prof)
		pprof.StartCPUProfile(f)
		go func() { time.Sleep(60 * time.Second); pprof.StopCPUProfile(); f.Close(); fmt.Println("PROFILE DONE"); os.Exit(3) }()
	}
	var tStand time.Duration

	t0 := time.Now()
	overlay := map[string][]byte{}
	for i, f := range strings.Split(*harnessFile, ",") {
		src, err := os.ReadFile(f)
		if err != nil {
			panic(err)
		}
		overlay[fmt.Sprintf("/repo/zz_vrf_%d.go", i)] = src
	}
	cfg := &packages.Config{Mode: packages.LoadAllSyntax, Dir: "/repo", Env: append(os.Environ(), "GOFLAGS=-mod=mod", "GOPROXY=off")}
	cfg.Overlay = overlay
	pkgs, err := packages.Load(cfg, ".")
	if err != nil {
		panic(err)
	}
	if packages.PrintErrors(pkgs) > 0 {
		os.Exit(2)
	}
	prog, spkgs := ssautil.AllPackages(pkgs, ssa.InstantiateGenerics)
	prog.Build()
	tLoad := time.Since(t0)
	pkg := spkgs[0]
	fn := pkg.Func(*entry)
	if fn == nil {
		fmt.Println("no such harness", *entry)
		os.Exit(2)
	}
	e := &Engine{prog: prog, sol: NewSolver(), pdom: map[*ssa.Function]map[*ssa.BasicBlock]*ssa.BasicBlock{},
		globals: map[*ssa.Global]int{}, Unwind: *unwind, MaxDepth: *depth,
		intercept: map[string]func(*Engine, *Frame, *Ctx, []Value, *ssa.CallCommon) (Value, bool){},
		strVars:   map[string]StrV{}, funcsHit: map[string]int{}, Lazy: *lazy, NoFeas: *nofeas}
	e.harnessPkg = pkg
	e.installIntrinsics(pkg.Pkg.Path())
	installModels(e)
	installReflect(e)

	t1 := time.Now()
	func() {
		defer func() {
			if r := recover(); r != nil {
				if u, ok := r.(unsupported); ok {
					fmt.Println("UNSUPPORTED:", u.msg)
					os.Exit(2)
				}
				panic(r)
			}
		}()
		c := &Ctx{S: &State{PC: TTrue, Heap: map[int]*Obj{}}, Regs: map[ssa.Value]Value{}}
		_, end := e.call(nil, c, fn, nil, nil)
		if end != nil {
			e.Obls = append(e.Obls, Obligation{Kind: "cover", ID: "harness-end-reachable", Cond: end.S.PC})
		}
	}()
	tExec := time.Since(t1)
	fmt.Printf("load+ssa %.1fs, exec %.2fs, steps %d, forks %d, merges %d, terms %d, feasibility queries %d (%.2fs)\n",
		tLoad.Seconds(), tExec.Seconds(), e.Steps, e.Forks, e.Merges, len(termList), e.sol.Queries, e.sol.Time.Seconds())
	var names []string
	for n := range e.funcsHit {
		names = append(names, n)
	}
	sort.Strings(names)
	fmt.Printf("functions executed from SSA: %d: %s\n", len(names), strings.Join(names, ", "))

	q0, tq0 := e.sol.Queries, e.sol.Time
	bad := 0
	for oi, o := range e.Obls {
		var r string
		var model map[string]uint64
		if *standalone {
			var d time.Duration
			tb := time.Now()
			r, model, d = Standalone(o.Cond, *solverBin, true)
			tStand += d
			fmt.Printf("    (obl %d: solver %.2fs, total %.2fs)\n", oi+1, d.Seconds(), time.Since(tb).Seconds())
		} else {
			r = e.sol.Check(o.Cond)
		}
		status := ""
		switch o.Kind {
		case "cover":
			if r == "sat" {
				status = "ok (reachable)"
			} else {
				status = "VACUOUS (" + r + ")"
				bad++
			}
		default:
			if r == "unsat" {
				status = "discharged"
			} else {
				status = "COUNTEREXAMPLE (" + r + ")"
				bad++
				if r == "sat" {
					m := model
					if m == nil {
						m = e.sol.Model()
					}
					var ks []string
					for k, v := range m {
						if v != 0 {
							ks = append(ks, fmt.Sprintf("%s=%d", k, v))
						}
					}
					sort.Strings(ks)
					status += " nonzero: " + strings.Join(ks, " ")
				}
			}
		}
		fmt.Printf("  #%d [%s] %s: %s\n", oi+1, o.Kind, o.ID, status)
	}
	fmt.Printf("obligations %d, failing %d, obligation queries %d (%.2fs)\n", len(e.Obls), bad, e.sol.Queries-q0, (e.sol.Time - tq0).Seconds())
	fmt.Printf("standalone solver time %.2fs\n", tStand.Seconds())
	e.sol.Close()
}
