package main

import (
	"runtime/debug"
	"time"
	"runtime/pprof"
	"encoding/json"
	"flag"
	"fmt"
	"os"
	"sort"
	"strings"

	"golang.org/x/tools/go/ssa"
)

func newEngine(prog *ssa.Program, pkg *ssa.Package) *Engine {
	e := &Engine{prog: prog, sol: NewSolver(), pdom: map[*ssa.Function]map[*ssa.BasicBlock]*ssa.BasicBlock{},
		globals: map[*ssa.Global]int{}, Unwind: 12, MaxDepth: 40,
		intercept: map[string]func(*Engine, *Frame, *Ctx, []Value, *ssa.CallCommon) (Value, bool){},
		strVars:   map[string]StrV{}, funcsHit: map[string]int{}, funcInstrs: map[string]int{}, Lazy: true,
		eager: map[string]bool{}, OpenKeys: map[string]bool{}, stepsBy: map[*ssa.Function]int{}}
	e.harnessPkg = pkg
	e.installIntrinsics(pkg.Pkg.Path())
	installModels(e)
	installReflect(e)
	return e
}

// runInits executes the package initialisers of the packages under test (their globals are read by the code).
func (e *Engine) runInits(c *Ctx) {
	for _, p := range e.prog.AllPackages() {
		path := p.Pkg.Path()
		if !strings.HasPrefix(path, "github.com/go-openapi/analysis") || strings.HasSuffix(path, "internal/debug") {
			continue
		}
		if strings.Contains(path, "antest") {
			continue
		}
		if init := p.Func("init"); init != nil && init.Blocks != nil {
			_, nc := e.call(nil, c, init, nil, nil)
			if nc != nil {
				c.S = nc.S
			}
		}
	}
	// initialisers are not part of the evidence
	e.funcsHit = map[string]int{}
	e.Obls = nil
}

func main() {
	// the term table is a large, long-lived heap: collect rarely (memory is plentiful), but stay below a soft limit
	debug.SetGCPercent(800)
	debug.SetMemoryLimit(24 << 30)
	if len(os.Args) < 2 {
		fmt.Println("usage: symgo check|one|replay|dev ...")
		os.Exit(2)
	}
	switch os.Args[1] {
	case "check":
		cmdCheck(os.Args[2:])
	case "one":
		cmdOne(os.Args[2:])
	case "replay":
		cmdReplay(os.Args[2:])
	case "dev":
		cmdDev(os.Args[2:])
	case "selftest":
		cmdSelftest(os.Args[2:])
	default:
		fmt.Println("unknown command", os.Args[1])
		os.Exit(2)
	}
}

// one: run a single RunSpec (JSON on the command line), print the RunResult as JSON on the last line.
func cmdOne(args []string) {
	fs := flag.NewFlagSet("one", flag.ExitOnError)
	specJSON := fs.String("spec", "", "RunSpec as JSON")
	out := fs.String("out", "", "file for the RunResult JSON")
	verbose := fs.Bool("v", false, "progress output")
	fs.StringVar(&DumpDir, "dump", "", "directory to dump obligations")
	fs.Parse(args)
	var spec RunSpec
	if err := json.Unmarshal([]byte(*specJSON), &spec); err != nil {
		fatal("bad spec: %v", err)
	}
	res := runOne(spec, *verbose)
	b, _ := json.Marshal(res)
	if *out != "" {
		os.WriteFile(*out, b, 0o644)
	} else {
		fmt.Println(string(b))
	}
}

// dev: developer front end: run one entry and print a readable report.
func cmdDev(args []string) {
	fs := flag.NewFlagSet("dev", flag.ExitOnError)
	entry := fs.String("entry", "", "harness function")
	unwind := fs.Int("unwind", 12, "loop unwinding limit")
	depth := fs.Int("depth", 40, "call depth limit")
	timeout := fs.Int("T", 60, "per-obligation timeout (s)")
	params := fs.String("params", "", "k=v,k=v")
	replay := fs.Bool("replay", false, "build the native replay binary and replay models")
	cross := fs.Bool("cross", false, "cross-check with z3 4.8.12 and cvc5")
	known := fs.String("known", "", "known mode: exclude | confirm:<key>")
	open := fs.String("open", "", "comma separated open known-finding keys")
	nofeas := fs.Bool("nofeas", false, "never query the solver during execution")
	all := fs.Bool("all", false, "print all obligations, not only the interesting ones")
	prof := fs.String("cpuprofile", "", "write a CPU profile of the execution")
	fs.StringVar(&DumpDir, "dump", "", "directory to dump obligations")
	fs.StringVar(&HarnessDir, "harness", HarnessDir, "harness directory")
	fs.Parse(args)
	spec := RunSpec{Entry: *entry, Unwind: *unwind, Depth: *depth, Timeout: *timeout, Params: map[string]int{}, Cross: *cross, KnownMode: *known, NoFeas: *nofeas, Prop: "DEV"}
	if *open != "" {
		spec.OpenKeys = strings.Split(*open, ",")
	}
	if *params != "" {
		for _, kv := range strings.Split(*params, ",") {
			var k string
			var v int
			p := strings.SplitN(kv, "=", 2)
			k = p[0]
			fmt.Sscan(p[1], &v)
			spec.Params[k] = v
		}
	}
	tmp, _ := os.MkdirTemp("", "symgo-dev-")
	defer os.RemoveAll(tmp)
	spec.ReplayDir = tmp
	if *replay {
		spec.ReplayBin = tmp + "/replay.test"
		go func() {
			if err := buildReplayBin(spec.ReplayBin); err != nil {
				fmt.Println("replay build:", err)
			}
		}()
	}
	if *prof != "" {
		f, _ := os.Create(*prof)
		pprof.StartCPUProfile(f)
		defer pprof.StopCPUProfile()
		go func() {
			time.Sleep(time.Duration(*timeout) * time.Second)
			pprof.StopCPUProfile()
			f.Close()
			hf, _ := os.Create(*prof + ".heap")
			pprof.WriteHeapProfile(hf)
			hf.Close()
			fmt.Println("profile window over")
			os.Exit(3)
		}()
	}
	res := runOne(spec, true)
	printRun(res, *all)
}

func printRun(res *RunResult, all bool) {
	fmt.Printf("entry %s params %v: load %.1fs exec %.2fs solve %.1fs (cpu %.1fs); steps %d forks %d merges %d terms %d feas %d (%.1fs)\n",
		res.Spec.Entry, res.Spec.Params, res.LoadS, res.ExecS, res.SolveS, res.SolverCPU, res.Steps, res.Forks, res.Merges, res.Terms, res.FeasQueries, res.FeasS)
	if res.Unsupported != "" {
		fmt.Println("UNSUPPORTED:", res.Unsupported)
	}
	var names []string
	for n := range res.Funcs {
		names = append(names, n)
	}
	sort.Strings(names)
	fmt.Printf("functions executed from SSA: %d\n", len(names))
	nd := 0
	for _, o := range res.Obls {
		interesting := !(o.Kind != "cover" && o.Result == "unsat") && !(o.Kind == "cover" && o.Result == "sat")
		if o.Kind != "cover" && o.Result == "unsat" {
			nd++
		}
		if all || interesting || o.Native != "" {
			fmt.Printf("  [%s] %s: %s (%.2fs) %s %s %s\n", o.Kind, o.ID, o.Result, o.SolverS, o.Reproduced, o.Native, o.Cross)
			if o.Witness != "" && (interesting) {
				fmt.Printf("      model: %s\n", o.Witness)
			}
		}
	}
	fmt.Printf("obligations %d, discharged %d, violations %d, spurious %d, undecided %d, vacuous %d, witnesses ok %d bad %d\n",
		len(res.Obls), nd, len(res.Violations), len(res.Spurious), len(res.Undecided), len(res.Vacuous), res.Witnessed, len(res.WitnessBad))
}

func cmdReplay(args []string) {
	fs := flag.NewFlagSet("replay", flag.ExitOnError)
	prop := fs.String("prop", "", "property id")
	fs.Parse(args)
	if fs.NArg() != 1 {
		fatal("usage: symgo replay --prop <id> <file>")
	}
	path := fs.Arg(0)
	tmp, _ := os.MkdirTemp("", "symgo-replay-")
	defer os.RemoveAll(tmp)
	bin := tmp + "/replay.test"
	if err := buildReplayBin(bin); err != nil {
		fatal("%v", err)
	}
	nat, err := runReplayBin(bin, path)
	if err != nil {
		fatal("%v", err)
	}
	var doc struct {
		Kind, ID string
	}
	b, _ := os.ReadFile(path)
	json.Unmarshal(b, &doc)
	fmt.Printf("replay of %s [%s] %s: %s\n", path, doc.Kind, doc.ID, nat.summary())
	rep := false
	switch doc.Kind {
	case "assert":
		for _, f := range nat.Failures {
			if f == doc.ID {
				rep = true
			}
		}
	case "panic":
		rep = nat.Panicked || nat.Crashed
	case "unwind":
		rep = nat.Timeout || nat.Crashed
	}
	if rep && !nat.AssumeFailed {
		fmt.Printf("VIOLATION property=%s replay=%s\n", *prop, path)
		os.Exit(1)
	}
	fmt.Println("not reproduced")
}
