package main

import (
	"fmt"
	"sort"
)

// ---- hash-consed terms: Bool and BitVec ----

type Op int

const (
	OConst Op = iota
	OVar
	ONot
	OAnd
	OOr
	OIte
	OEq
	OAdd
	OSub
	OMul
	OUlt
	OUle
	OSlt
	OSle
	OBvAnd
	OBvOr
	OBvXor
	OShl
	OLshr
	OAshr
	OUdiv
	OUrem
	OSdiv
	OSrem
	OZext // width change (zero extend or truncate)
	OSext
)

type Term struct {
	id    int
	op    Op
	width int // 0 = Bool
	args  []*Term
	val   uint64
	name  string
	// interval for BV terms interpreted as unsigned (valid if hasIv)
	hasIv  bool
	lo, hi uint64
}

type tkey struct {
	op      Op
	width   int
	val     uint64
	name    string
	a0, a1, a2 int
	rest    string
}

var (
	termTab  = map[tkey]*Term{}
	termList []*Term
	negOf    = map[int]*Term{} // id -> existing Not(term)
	TTrue    *Term
	TFalse   *Term
)

func init() {
	TTrue = mk(&Term{op: OConst, width: 0, val: 1})
	TFalse = mk(&Term{op: OConst, width: 0, val: 0})
}

func key(t *Term) tkey {
	k := tkey{op: t.op, width: t.width, val: t.val, name: t.name, a0: -1, a1: -1, a2: -1}
	n := len(t.args)
	if n > 0 {
		k.a0 = t.args[0].id
	}
	if n > 1 {
		k.a1 = t.args[1].id
	}
	if n > 2 {
		k.a2 = t.args[2].id
	}
	if n > 3 {
		b := make([]byte, 0, 4*(n-3))
		for _, a := range t.args[3:] {
			b = append(b, byte(a.id), byte(a.id>>8), byte(a.id>>16), byte(a.id>>24))
		}
		k.rest = string(b)
	}
	return k
}

func mk(t *Term) *Term {
	k := key(t)
	if e, ok := termTab[k]; ok {
		return e
	}
	t.id = len(termList)
	termList = append(termList, t)
	termTab[k] = t
	computeIv(t)
	if t.op == ONot {
		negOf[t.args[0].id] = t
	}
	return t
}

func mask(w int) uint64 {
	if w >= 64 {
		return ^uint64(0)
	}
	return (uint64(1) << uint(w)) - 1
}

func computeIv(t *Term) {
	if t.width == 0 {
		return
	}
	switch t.op {
	case OConst:
		t.hasIv, t.lo, t.hi = true, t.val, t.val
	case OIte:
		a, b := t.args[1], t.args[2]
		if a.hasIv && b.hasIv {
			t.hasIv = true
			t.lo, t.hi = min(a.lo, b.lo), max(a.hi, b.hi)
		}
	case OAdd:
		a, b := t.args[0], t.args[1]
		if a.hasIv && b.hasIv && a.hi+b.hi >= a.hi && a.hi+b.hi <= mask(t.width) {
			t.hasIv, t.lo, t.hi = true, a.lo+b.lo, a.hi+b.hi
		}
	case OZext:
		a := t.args[0]
		if a.hasIv && a.hi <= mask(t.width) {
			t.hasIv, t.lo, t.hi = true, a.lo, a.hi
		} else if a.width < t.width {
			t.hasIv, t.lo, t.hi = true, 0, mask(a.width)
		}
	case OVar:
		if t.width < 64 {
			t.hasIv, t.lo, t.hi = true, 0, mask(t.width)
		}
	}
}

func (t *Term) IsConst() bool { return t.op == OConst }
func (t *Term) IsTrue() bool  { return t == TTrue }
func (t *Term) IsFalse() bool { return t == TFalse }

func BoolC(b bool) *Term {
	if b {
		return TTrue
	}
	return TFalse
}
func BV(w int, v uint64) *Term { return mk(&Term{op: OConst, width: w, val: v & mask(w)}) }
func Var(name string, w int) *Term {
	return mk(&Term{op: OVar, width: w, name: name})
}

// VarIv declares a BV var with a known unsigned interval (assumed by an assertion added by caller)
func Not(a *Term) *Term {
	if a.IsConst() {
		return BoolC(a.val == 0)
	}
	if a.op == ONot {
		return a.args[0]
	}
	return mk(&Term{op: ONot, args: []*Term{a}})
}

// Large conjunctions (path conditions, map-entry guards) are kept as nested terms: an and/or term with more than
// bigN arguments is treated as one atom when it is conjoined further, so that And(pc, c) costs O(1) instead of
// O(|pc|). Membership of a literal in a big term (for x∧¬x, x∧x and v=3∧v=5 folding) is answered by a cached index.
const bigN = 12

type bigInfo struct {
	lits map[int]struct{}
	eqc  map[int]uint64
	kids []*bigInfo
	all   map[int]struct{}
	eqAll map[int]uint64
}

var bigTab = map[int]*bigInfo{}

func bigOf(t *Term) *bigInfo {
	if b, ok := bigTab[t.id]; ok {
		return b
	}
	b := &bigInfo{lits: make(map[int]struct{}, len(t.args))}
	for _, a := range t.args {
		if a.op == t.op && len(a.args) > bigN {
			b.kids = append(b.kids, bigOf(a))
			continue
		}
		b.lits[a.id] = struct{}{}
		if t.op == OAnd && a.op == OEq && a.args[0].IsConst() != a.args[1].IsConst() {
			v, k := a.args[0], a.args[1]
			if v.IsConst() {
				v, k = k, v
			}
			if b.eqc == nil {
				b.eqc = map[int]uint64{}
			}
			b.eqc[v.id] = k.val
		}
	}
	bigTab[t.id] = b
	return b
}

// nested conjunctions form a DAG (merged path conditions share their prefixes): each node keeps, lazily, the set of
// all literals below it, so that a lookup does not walk the DAG
func (b *bigInfo) closure() {
	if b.all != nil {
		return
	}
	if len(b.kids) == 0 {
		b.all, b.eqAll = b.lits, b.eqc
		if b.eqAll == nil {
			b.eqAll = map[int]uint64{}
		}
		return
	}
	all := make(map[int]struct{}, len(b.lits))
	eqAll := map[int]uint64{}
	for _, k := range b.kids {
		k.closure()
		for id := range k.all {
			all[id] = struct{}{}
		}
		for v, x := range k.eqAll {
			if _, ok := eqAll[v]; !ok {
				eqAll[v] = x
			}
		}
	}
	for id := range b.lits {
		all[id] = struct{}{}
	}
	for v, x := range b.eqc {
		eqAll[v] = x
	}
	b.all, b.eqAll = all, eqAll
}

func (b *bigInfo) has(id int) bool {
	b.closure()
	_, ok := b.all[id]
	return ok
}

func (b *bigInfo) eq(v int) (uint64, bool) {
	b.closure()
	x, ok := b.eqAll[v]
	return x, ok
}

func nary(op Op, unit, zero *Term, xs []*Term) *Term {
	// fast paths: drop units, detect zero, single remaining argument
	var only *Term
	nn := 0
	for _, x := range xs {
		if x == zero {
			return zero
		}
		if x != unit && x != only {
			only = x
			nn++
		}
	}
	if nn == 0 {
		return unit
	}
	if nn == 1 {
		return only
	}
	var out []*Term
	var eqc map[int]uint64
	var bigs []*bigInfo
	seen := idset{}
	for _, x := range xs {
		if x == zero {
			return zero
		}
		if x == unit {
			continue
		}
		var parts []*Term
		if x.op == op && len(x.args) <= bigN {
			parts = x.args
		} else {
			parts = []*Term{x}
		}
		for _, p := range parts {
			if seen.has(p.id) {
				continue
			}
			// complementary (without constructing new terms)
			if p.op == ONot {
				if seen.has(p.args[0].id) {
					return zero
				}
			} else if n, ok := negOf[p.id]; ok && seen.has(n.id) {
				return zero
			}
			if p.op == op && len(p.args) > bigN {
				bigs = append(bigs, bigOf(p))
			} else if op == OAnd && p.op == OEq && p.args[0].IsConst() != p.args[1].IsConst() {
				v, k := p.args[0], p.args[1]
				if v.IsConst() {
					v, k = k, v
				}
				if prev, ok := eqc[v.id]; ok && prev != k.val {
					return zero
				}
				if eqc == nil {
					eqc = map[int]uint64{}
				}
				eqc[v.id] = k.val
			}
			seen.add(p.id)
			out = append(out, p)
		}
	}
	inBigs := func(id int) bool {
		for _, b := range bigs {
			if b.has(id) {
				return true
			}
		}
		return false
	}
	if len(bigs) > 0 {
		kept := out[:0:0]
		for _, p := range out {
			if p.op == op && len(p.args) > bigN {
				kept = append(kept, p)
				continue
			}
			if inBigs(p.id) {
				continue // already a literal of a nested conjunction
			}
			if p.op == ONot {
				if inBigs(p.args[0].id) {
					return zero
				}
			} else if n, ok := negOf[p.id]; ok && inBigs(n.id) {
				return zero
			}
			if op == OAnd && p.op == OEq && p.args[0].IsConst() != p.args[1].IsConst() {
				v, k := p.args[0], p.args[1]
				if v.IsConst() {
					v, k = k, v
				}
				for _, b := range bigs {
					if prev, ok := b.eq(v.id); ok && prev != k.val {
						return zero
					}
				}
			}
			kept = append(kept, p)
		}
		out = kept
	}
	// ¬(a∧b) together with a and b (dually for or): contradiction / tautology
	for _, p := range out {
		if p.op != ONot {
			continue
		}
		q := p.args[0]
		if (op == OAnd && q.op == OAnd || op == OOr && q.op == OOr) && len(q.args) <= bigN {
			all := true
			for _, a := range q.args {
				if !seen.has(a.id) && !inBigs(a.id) {
					all = false
					break
				}
			}
			if all {
				return zero
			}
		}
	}
	if len(out) == 0 {
		return unit
	}
	if len(out) == 1 {
		return out[0]
	}
	sort.Slice(out, func(i, j int) bool { return out[i].id < out[j].id })
	return mk(&Term{op: op, args: out})
}

func And(xs ...*Term) *Term { return nary(OAnd, TTrue, TFalse, xs) }
func Or(xs ...*Term) *Term {
	// (p&c)|(p&!c) => p : handle simple two-arg case
	if len(xs) == 2 {
		a, b := xs[0], xs[1]
		if a.op == OAnd && b.op == OAnd && len(a.args) == len(b.args) {
			// find single differing complementary literal
			am := map[int]bool{}
			for _, x := range a.args {
				am[x.id] = true
			}
			var diffB []*Term
			common := []*Term{}
			for _, y := range b.args {
				if am[y.id] {
					common = append(common, y)
				} else {
					diffB = append(diffB, y)
				}
			}
			if len(diffB) == 1 && len(common) == len(a.args)-1 {
				d := diffB[0]
				var n *Term
				if d.op == ONot {
					n = d.args[0]
				} else {
					n = negOf[d.id]
				}
				if n != nil && am[n.id] {
					return And(common...)
				}
			}
		}
		if (a.op == ONot && a.args[0] == b) || (b.op == ONot && b.args[0] == a) {
			return TTrue
		}
	}
	return nary(OOr, TFalse, TTrue, xs)
}
func Implies(a, b *Term) *Term { return Or(Not(a), b) }

func Ite(c, a, b *Term) *Term {
	if c.IsTrue() {
		return a
	}
	if c.IsFalse() {
		return b
	}
	if a == b {
		return a
	}
	if a.width == 0 {
		if a.IsTrue() && b.IsFalse() {
			return c
		}
		if a.IsFalse() && b.IsTrue() {
			return Not(c)
		}
		if a.IsTrue() {
			return Or(c, b)
		}
		if a.IsFalse() {
			return And(Not(c), b)
		}
		if b.IsTrue() {
			return Or(Not(c), a)
		}
		if b.IsFalse() {
			return And(c, a)
		}
	}
	// ite(c, x, ite(c, y, z)) => ite(c,x,z)
	if b.op == OIte && b.args[0] == c {
		b = b.args[2]
	}
	if a.op == OIte && a.args[0] == c {
		a = a.args[1]
	}
	if a == b {
		return a
	}
	return mk(&Term{op: OIte, width: a.width, args: []*Term{c, a, b}})
}

var eqMemo = map[[2]int]*Term{}

func Eq(a, b *Term) *Term {
	if a == b {
		return TTrue
	}
	if a.IsConst() && b.IsConst() {
		return BoolC(a.val == b.val)
	}
	k := [2]int{a.id, b.id}
	if a.id > b.id {
		k = [2]int{b.id, a.id}
	}
	if r, ok := eqMemo[k]; ok {
		return r
	}
	r := eq1(a, b)
	eqMemo[k] = r
	return r
}

func eq1(a, b *Term) *Term {
	if a == b {
		return TTrue
	}
	if a.IsConst() && b.IsConst() {
		return BoolC(a.val == b.val)
	}
	if a.width == 0 {
		if a.IsConst() {
			a, b = b, a
		}
		if b.IsTrue() {
			return a
		}
		if b.IsFalse() {
			return Not(a)
		}
	} else {
		if a.hasIv && b.hasIv && (a.hi < b.lo || b.hi < a.lo) {
			return TFalse
		}
		// push equality with constant through ite
		if b.IsConst() && a.op == OIte {
			return Ite(a.args[0], Eq(a.args[1], b), Eq(a.args[2], b))
		}
		if a.IsConst() && b.op == OIte {
			return Ite(b.args[0], Eq(b.args[1], a), Eq(b.args[2], a))
		}
	}
	if a.id > b.id {
		a, b = b, a
	}
	return mk(&Term{op: OEq, args: []*Term{a, b}})
}

func bin(op Op, a, b *Term, f func(x, y uint64) uint64) *Term {
	if a.IsConst() && b.IsConst() {
		return BV(a.width, f(a.val, b.val))
	}
	return mk(&Term{op: op, width: a.width, args: []*Term{a, b}})
}

var addMemo = map[[2]int]*Term{}

func Add(a, b *Term) *Term {
	if b.IsConst() && b.val == 0 {
		return a
	}
	if a.IsConst() && a.val == 0 {
		return b
	}
	k := [2]int{a.id, b.id}
	if r, ok := addMemo[k]; ok {
		return r
	}
	r := add1(a, b)
	addMemo[k] = r
	return r
}

func add1(a, b *Term) *Term {
	if b.IsConst() && b.val == 0 {
		return a
	}
	if a.IsConst() && a.val == 0 {
		return b
	}
	// (x + c1) + c2
	if b.IsConst() && a.op == OAdd && a.args[1].IsConst() {
		return Add(a.args[0], BV(a.width, a.args[1].val+b.val))
	}
	if a.IsConst() && !b.IsConst() {
		a, b = b, a
	}
	if b.IsConst() && a.op == OIte && (a.args[1].IsConst() || a.args[2].IsConst()) {
		return Ite(a.args[0], Add(a.args[1], b), Add(a.args[2], b))
	}
	return bin(OAdd, a, b, func(x, y uint64) uint64 { return x + y })
}
func Sub(a, b *Term) *Term {
	if b.IsConst() {
		return Add(a, BV(a.width, -b.val))
	}
	if a == b {
		return BV(a.width, 0)
	}
	return bin(OSub, a, b, func(x, y uint64) uint64 { return x - y })
}
func Mul(a, b *Term) *Term { return bin(OMul, a, b, func(x, y uint64) uint64 { return x * y }) }

func sext(v uint64, w int) int64 {
	if w >= 64 {
		return int64(v)
	}
	if v&(uint64(1)<<uint(w-1)) != 0 {
		return int64(v | ^mask(w))
	}
	return int64(v)
}

type cmpKey struct {
	op   Op
	a, b int
}

var cmpMemo = map[cmpKey]*Term{}

func cmp(op Op, a, b *Term) *Term {
	if !(a.IsConst() && b.IsConst()) {
		k := cmpKey{op, a.id, b.id}
		if r, ok := cmpMemo[k]; ok {
			return r
		}
		r := cmp1(op, a, b)
		cmpMemo[k] = r
		return r
	}
	return cmp1(op, a, b)
}

func cmp1(op Op, a, b *Term) *Term {
	if a.IsConst() && b.IsConst() {
		switch op {
		case OUlt:
			return BoolC(a.val < b.val)
		case OUle:
			return BoolC(a.val <= b.val)
		case OSlt:
			return BoolC(sext(a.val, a.width) < sext(b.val, b.width))
		case OSle:
			return BoolC(sext(a.val, a.width) <= sext(b.val, b.width))
		}
	}
	if a == b {
		return BoolC(op == OUle || op == OSle)
	}
	// canonical form: a signed comparison of two provably non-negative values is the unsigned one
	if (op == OSlt || op == OSle) && a.hasIv && b.hasIv && a.hi < (uint64(1)<<uint(a.width-1)) && b.hi < (uint64(1)<<uint(b.width-1)) {
		if op == OSlt {
			op = OUlt
		} else {
			op = OUle
		}
	}
	// interval reasoning (valid for signed too when both intervals are within non-negative signed range)
	if a.hasIv && b.hasIv {
		nonneg := a.width == 64 && a.hi < (1<<62) && b.hi < (1<<62) || a.width < 64 && (op == OUlt || op == OUle)
		if nonneg || op == OUlt || op == OUle {
			switch op {
			case OUlt, OSlt:
				if a.hi < b.lo {
					return TTrue
				}
				if a.lo >= b.hi {
					return TFalse
				}
			case OUle, OSle:
				if a.hi <= b.lo {
					return TTrue
				}
				if a.lo > b.hi {
					return TFalse
				}
			}
		}
	}
	if b.IsConst() && a.op == OIte && (a.args[1].IsConst() || a.args[2].IsConst()) {
		return Ite(a.args[0], cmp(op, a.args[1], b), cmp(op, a.args[2], b))
	}
	if a.IsConst() && b.op == OIte && (b.args[1].IsConst() || b.args[2].IsConst()) {
		return Ite(b.args[0], cmp(op, a, b.args[1]), cmp(op, a, b.args[2]))
	}
	return mk(&Term{op: op, args: []*Term{a, b}})
}
func Ult(a, b *Term) *Term { return cmp(OUlt, a, b) }
func Ule(a, b *Term) *Term { return cmp(OUle, a, b) }
func Slt(a, b *Term) *Term { return cmp(OSlt, a, b) }
func Sle(a, b *Term) *Term { return cmp(OSle, a, b) }

type rszKey struct {
	a, w int
	s    bool
}

var rszMemo = map[rszKey]*Term{}

func Resize(a *Term, w int, signed bool) *Term {
	if a.width == w {
		return a
	}
	k := rszKey{a.id, w, signed}
	if r, ok := rszMemo[k]; ok {
		return r
	}
	r := resize1(a, w, signed)
	rszMemo[k] = r
	return r
}

func resize1(a *Term, w int, signed bool) *Term {
	if a.width == w {
		return a
	}
	if a.IsConst() {
		if signed && w > a.width {
			return BV(w, uint64(sext(a.val, a.width)))
		}
		return BV(w, a.val)
	}
	if a.op == OIte && (a.args[1].IsConst() || a.args[2].IsConst()) {
		return Ite(a.args[0], Resize(a.args[1], w, signed), Resize(a.args[2], w, signed))
	}
	op := OZext
	if signed && w > a.width {
		op = OSext
	}
	return mk(&Term{op: op, width: w, args: []*Term{a}})
}

// ---- SMT-LIB printing ----

func sortStr(t *Term) string {
	if t.width == 0 {
		return "Bool"
	}
	return fmt.Sprintf("(_ BitVec %d)", t.width)
}

func (t *Term) ref() string {
	switch t.op {
	case OConst:
		if t.width == 0 {
			if t.val == 1 {
				return "true"
			}
			return "false"
		}
		return fmt.Sprintf("(_ bv%d %d)", t.val, t.width)
	case OVar:
		return "|" + t.name + "|"
	}
	return fmt.Sprintf("n%d", t.id)
}

func (t *Term) body() string {
	a := func(i int) string { return t.args[i].ref() }
	switch t.op {
	case ONot:
		return "(not " + a(0) + ")"
	case OAnd, OOr:
		s := "(and"
		if t.op == OOr {
			s = "(or"
		}
		for i := range t.args {
			s += " " + a(i)
		}
		return s + ")"
	case OIte:
		return "(ite " + a(0) + " " + a(1) + " " + a(2) + ")"
	case OEq:
		return "(= " + a(0) + " " + a(1) + ")"
	case OAdd:
		return "(bvadd " + a(0) + " " + a(1) + ")"
	case OSub:
		return "(bvsub " + a(0) + " " + a(1) + ")"
	case OMul:
		return "(bvmul " + a(0) + " " + a(1) + ")"
	case OUlt:
		return "(bvult " + a(0) + " " + a(1) + ")"
	case OUle:
		return "(bvule " + a(0) + " " + a(1) + ")"
	case OSlt:
		return "(bvslt " + a(0) + " " + a(1) + ")"
	case OSle:
		return "(bvsle " + a(0) + " " + a(1) + ")"
	case OLshr:
		return "(bvlshr " + a(0) + " " + a(1) + ")"
	case OShl:
		return "(bvshl " + a(0) + " " + a(1) + ")"
	case OAshr:
		return "(bvashr " + a(0) + " " + a(1) + ")"
	case OBvOr:
		return "(bvor " + a(0) + " " + a(1) + ")"
	case OBvXor:
		return "(bvxor " + a(0) + " " + a(1) + ")"
	case OUdiv:
		return "(bvudiv " + a(0) + " " + a(1) + ")"
	case OUrem:
		return "(bvurem " + a(0) + " " + a(1) + ")"
	case OSdiv:
		return "(bvsdiv " + a(0) + " " + a(1) + ")"
	case OSrem:
		return "(bvsrem " + a(0) + " " + a(1) + ")"
	case OBvAnd:
		return "(bvand " + a(0) + " " + a(1) + ")"
	case OZext:
		src := t.args[0]
		if src.width > t.width {
			return fmt.Sprintf("((_ extract %d 0) %s)", t.width-1, a(0))
		}
		return fmt.Sprintf("((_ zero_extend %d) %s)", t.width-src.width, a(0))
	case OSext:
		return fmt.Sprintf("((_ sign_extend %d) %s)", t.width-t.args[0].width, a(0))
	}
	panic("body: op")
}

// withIv returns t; if t carries no interval yet, records [lo,hi] (the caller guarantees it holds on every feasible path).
func withIv(t *Term, lo, hi uint64) *Term {
	if t.IsConst() {
		return t
	}
	if !t.hasIv {
		t.hasIv, t.lo, t.hi = true, lo, hi
	} else {
		if lo > t.lo {
			t.lo = lo
		}
		if hi < t.hi {
			t.hi = hi
		}
	}
	return t
}

// idset: small-set of term ids (linear for few elements, map beyond)
type idset struct {
	small []int
	m     map[int]bool
}

func (s *idset) has(id int) bool {
	if s.m != nil {
		return s.m[id]
	}
	for _, x := range s.small {
		if x == id {
			return true
		}
	}
	return false
}

func (s *idset) add(id int) {
	if s.m != nil {
		s.m[id] = true
		return
	}
	s.small = append(s.small, id)
	if len(s.small) > 24 {
		s.m = make(map[int]bool, 64)
		for _, x := range s.small {
			s.m[x] = true
		}
		s.small = nil
	}
}

// BinBV builds a bit-vector binary operation with constant folding (Go semantics for the given width).
func BinBV(op Op, a, b *Term) *Term {
	w := a.width
	return bin(op, a, b, func(x, y uint64) uint64 {
		switch op {
		case OBvAnd:
			return x & y
		case OBvOr:
			return x | y
		case OBvXor:
			return x ^ y
		case OShl:
			if y >= uint64(w) {
				return 0
			}
			return x << y
		case OLshr:
			if y >= uint64(w) {
				return 0
			}
			return x >> y
		case OAshr:
			if y >= uint64(w) {
				y = uint64(w - 1)
			}
			return uint64(sext(x, w) >> y)
		case OUdiv:
			if y == 0 {
				return mask(w)
			}
			return x / y
		case OUrem:
			if y == 0 {
				return x
			}
			return x % y
		case OSdiv:
			if y == 0 {
				return mask(w)
			}
			return uint64(sext(x, w) / sext(y, w))
		case OSrem:
			if y == 0 {
				return x
			}
			return uint64(sext(x, w) % sext(y, w))
		}
		panic("BinBV")
	})
}

// ---- concrete evaluation (used to decide branch feasibility exhaustively when the cone of influence of a query has
// only a few Boolean variables: sound pruning, no solver needed) ----

type evalCtx struct {
	val  map[int]uint64
	memo map[int]uint64
}

func (ec *evalCtx) eval(t *Term) uint64 {
	if t.op == OConst {
		return t.val
	}
	if v, ok := ec.memo[t.id]; ok {
		return v
	}
	var r uint64
	a := func(i int) uint64 { return ec.eval(t.args[i]) }
	b2u := func(b bool) uint64 {
		if b {
			return 1
		}
		return 0
	}
	switch t.op {
	case OVar:
		r = ec.val[t.id]
	case ONot:
		r = 1 - a(0)
	case OAnd:
		r = 1
		for i := range t.args {
			if a(i) == 0 {
				r = 0
				break
			}
		}
	case OOr:
		r = 0
		for i := range t.args {
			if a(i) == 1 {
				r = 1
				break
			}
		}
	case OIte:
		if a(0) == 1 {
			r = a(1)
		} else {
			r = a(2)
		}
	case OEq:
		r = b2u(a(0) == a(1))
	case OAdd:
		r = (a(0) + a(1)) & mask(t.width)
	case OSub:
		r = (a(0) - a(1)) & mask(t.width)
	case OMul:
		r = (a(0) * a(1)) & mask(t.width)
	case OUlt:
		r = b2u(a(0) < a(1))
	case OUle:
		r = b2u(a(0) <= a(1))
	case OSlt:
		r = b2u(sext(a(0), t.args[0].width) < sext(a(1), t.args[1].width))
	case OSle:
		r = b2u(sext(a(0), t.args[0].width) <= sext(a(1), t.args[1].width))
	case OZext:
		r = a(0) & mask(t.width)
	case OSext:
		r = uint64(sext(a(0), t.args[0].width)) & mask(t.width)
	case OBvAnd, OBvOr, OBvXor, OShl, OLshr, OAshr, OUdiv, OUrem, OSdiv, OSrem:
		x, y := BV(t.args[0].width, a(0)), BV(t.args[1].width, a(1))
		r = BinBV(t.op, x, y).val
	default:
		panic("eval: op")
	}
	ec.memo[t.id] = r
	return r
}

// satByEnumeration decides t exhaustively if its variables are at most maxVars Booleans; ok=false otherwise.
// The cone of t is ordered once; each assignment is one linear pass over it.
func satByEnumeration(t *Term, maxVars int) (sat bool, ok bool) {
	vs := varsOf(t)
	// finite domains: Booleans; bit-vector variables with a declared small interval (the range constraint is part of
	// every path condition that mentions the variable, so values outside it cannot satisfy the formula) or of <= 8 bits
	doms := make([][2]uint64, len(vs))
	total := uint64(1)
	for i, v := range vs {
		x := termList[v]
		switch {
		case x.width == 0:
			doms[i] = [2]uint64{0, 1}
		case x.hasIv && x.hi-x.lo < 256:
			doms[i] = [2]uint64{x.lo, x.hi}
		case x.width <= 8:
			doms[i] = [2]uint64{0, 1<<uint(x.width) - 1}
		default:
			return false, false
		}
		total *= doms[i][1] - doms[i][0] + 1
		if total > 1<<uint(maxVars+2) {
			return false, false
		}
	}
	// topological order of the cone
	var order []*Term
	pos := map[int]int{}
	var visit func(x *Term)
	visit = func(x *Term) {
		if _, ok := pos[x.id]; ok {
			return
		}
		for _, a := range x.args {
			visit(a)
		}
		pos[x.id] = len(order)
		order = append(order, x)
	}
	visit(t)
	if len(order) > 400000 || uint64(len(order))*total > 60000000 {
		return false, false
	}
	argIdx := make([][]int, len(order))
	for i, x := range order {
		argIdx[i] = make([]int, len(x.args))
		for j, a := range x.args {
			argIdx[i][j] = pos[a.id]
		}
	}
	vals := make([]uint64, len(order))
	varBit := map[int]int{}
	for i, v := range vs {
		varBit[int(v)] = i
	}
	cur := make([]uint64, len(vs))
	for m := uint64(0); m < total; m++ {
		// mixed-radix decoding of the m-th assignment
		rest := m
		for i := range vs {
			size := doms[i][1] - doms[i][0] + 1
			cur[i] = doms[i][0] + rest%size
			rest /= size
		}
		for i, x := range order {
			ai := argIdx[i]
			var r uint64
			switch x.op {
			case OConst:
				r = x.val
			case OVar:
				r = cur[varBit[x.id]]
			case ONot:
				r = 1 - vals[ai[0]]
			case OAnd:
				r = 1
				for _, k := range ai {
					if vals[k] == 0 {
						r = 0
						break
					}
				}
			case OOr:
				r = 0
				for _, k := range ai {
					if vals[k] == 1 {
						r = 1
						break
					}
				}
			case OIte:
				if vals[ai[0]] == 1 {
					r = vals[ai[1]]
				} else {
					r = vals[ai[2]]
				}
			case OEq:
				if vals[ai[0]] == vals[ai[1]] {
					r = 1
				}
			case OAdd:
				r = (vals[ai[0]] + vals[ai[1]]) & mask(x.width)
			case OSub:
				r = (vals[ai[0]] - vals[ai[1]]) & mask(x.width)
			case OMul:
				r = (vals[ai[0]] * vals[ai[1]]) & mask(x.width)
			case OUlt:
				if vals[ai[0]] < vals[ai[1]] {
					r = 1
				}
			case OUle:
				if vals[ai[0]] <= vals[ai[1]] {
					r = 1
				}
			case OSlt:
				if sext(vals[ai[0]], x.args[0].width) < sext(vals[ai[1]], x.args[1].width) {
					r = 1
				}
			case OSle:
				if sext(vals[ai[0]], x.args[0].width) <= sext(vals[ai[1]], x.args[1].width) {
					r = 1
				}
			case OZext:
				r = vals[ai[0]] & mask(x.width)
			case OSext:
				r = uint64(sext(vals[ai[0]], x.args[0].width)) & mask(x.width)
			default:
				r = BinBV(x.op, BV(x.args[0].width, vals[ai[0]]), BV(x.args[1].width, vals[ai[1]])).val
			}
			vals[i] = r
		}
		if vals[len(order)-1] == 1 {
			return true, true
		}
	}
	return false, true
}
