package main

import (
	"os"
	"net/url"
	"path"
	"strconv"
	"fmt"
	"go/types"
	"strings"

	"golang.org/x/tools/go/ssa"
)

// engine-level summaries used by the spike only
func installModels(e *Engine) {
	// jsonpointer.Escape: per byte map '~'->"~0", '/'->"~1"
	e.intercept["github.com/go-openapi/jsonpointer.Escape"] = func(e *Engine, fr *Frame, c *Ctx, a []Value, _ *ssa.CallCommon) (Value, bool) {
		if a[0].(StrV).Plain {
			return a[0], true
		}
		s := fl(a[0].(StrV))
		if cs, ok := s.Concrete(); ok {
			out := ""
			for i := 0; i < len(cs); i++ {
				switch cs[i] {
				case '~':
					out += "~0"
				case '/':
					out += "~1"
				default:
					out += cs[i : i+1]
				}
			}
			return StrC(out), true
		}
		L := len(s.B)
		out := make([]*Term, 2*L)
		for i := range out {
			out[i] = BV(8, 0)
		}
		pos := BV(64, 0)
		for i := 0; i < L; i++ {
			live := Ult(BV(64, uint64(i)), s.Len)
			ch := s.B[i]
			isT, isS := Eq(ch, BV(8, '~')), Eq(ch, BV(8, '/'))
			special := Or(isT, isS)
			first := Ite(special, BV(8, '~'), ch)
			second := Ite(isT, BV(8, '0'), BV(8, '1'))
			for j := range out {
				jj := BV(64, uint64(j))
				out[j] = Ite(And(live, Eq(pos, jj)), first, out[j])
				out[j] = Ite(And(live, special, Eq(Add(pos, BV(64, 1)), jj)), second, out[j])
			}
			pos = Ite(live, Ite(special, Add(pos, BV(64, 2)), Add(pos, BV(64, 1))), pos)
		}
		orig := a[0].(StrV)
		res := StrV{Len: pos, B: out, EscOf: &orig}
		// the escaped form never contains '/': one '/'-free piece; it may be empty, which ropes allow
		return StrV{Len: pos, R: &Rope{Toks: [][]StrV{{res}}}, EscOf: &orig}, true
	}
	ropeTok := func(tok []StrV) StrV {
		r := &Rope{Toks: [][]StrV{tok}}
		return StrV{Len: ropeLen(r), R: r}
	}
	e.intercept["strings.Split"] = func(e *Engine, fr *Frame, c *Ctx, a []Value, cc *ssa.CallCommon) (Value, bool) {
		s := a[0].(StrV)
		sep, _ := a[1].(StrV).Concrete()
		if cs, ok := s.Concrete(); ok && sep != "" {
			parts := strings.Split(cs, sep)
			el := make([]Value, len(parts))
			for i, p := range parts {
				el[i] = StrC(p)
			}
			id := e.newObj(c, &Obj{Val: ArrayV{el}})
			return SliceV{[]SliceAlt{{TTrue, id, 0, BV(64, uint64(len(el))), len(el)}}}, true
		}
		if s.R == nil || sep != "/" {
			unsup("strings.Split model: needs a rope and sep \"/\" (rope %v choice %v lenconst %v sep %q)", s.R != nil, s.Ch != nil, s.Len.IsConst(), sep)
		}
		el := make([]Value, len(s.R.Toks))
		for i, t := range s.R.Toks {
			el[i] = ropeTok(t)
		}
		id := e.newObj(c, &Obj{Val: ArrayV{el}})
		return SliceV{[]SliceAlt{{TTrue, id, 0, BV(64, uint64(len(el))), len(el)}}}, true
	}
	e.intercept["strings.Join"] = func(e *Engine, fr *Frame, c *Ctx, a []Value, cc *ssa.CallCommon) (Value, bool) {
		sv := a[0].(SliceV)
		sep := a[1].(StrV)
		var et types.Type = types.Typ[types.String]
		el, ln := e.sliceView(c, sv, et)
		if ln.IsConst() {
			n := int(ln.val)
			if n == 0 {
				return StrC(""), true
			}
			res := el[0].(StrV)
			for i := 1; i < n; i++ {
				res = strConcat(strConcat(res, sep), el[i].(StrV))
			}
			return res, true
		}
		// symbolic length: case split over the possible lengths
		var res Value = StrC("")
		acc := StrC("")
		lo := 0
		if ln.hasIv {
			lo = int(ln.lo)
		}
		for n := 1; n <= len(el); n++ {
			if n == 1 {
				acc = el[0].(StrV)
			} else {
				acc = strConcat(strConcat(acc, sep), el[n-1].(StrV))
			}
			if n >= lo {
				res = mergeV(Eq(ln, BV(64, uint64(n))), acc, res)
			}
		}
		return res, true
	}
	e.intercept["strings.HasPrefix"] = func(e *Engine, fr *Frame, c *Ctx, a []Value, cc *ssa.CallCommon) (Value, bool) {
		s, p := fl(a[0].(StrV)), a[1].(StrV)
		ps, ok := p.Concrete()
		if !ok {
			// general case: |p| <= |s| and the first |p| bytes agree
			pf := fl(p)
			conj := []*Term{Ule(pf.Len, s.Len)}
			for i := 0; i < len(pf.B); i++ {
				live := Ult(BV(64, uint64(i)), pf.Len)
				var sb *Term = BV(8, 0)
				if i < len(s.B) {
					sb = s.B[i]
				} else {
					conj = append(conj, Not(live))
					continue
				}
				conj = append(conj, Or(Not(live), Eq(sb, pf.B[i])))
			}
			return BoolV{And(conj...)}, true
		}
		conj := []*Term{Ule(BV(64, uint64(len(ps))), s.Len)}
		for i := 0; i < len(ps); i++ {
			if i >= len(s.B) {
				return BoolV{TFalse}, true
			}
			conj = append(conj, Eq(s.B[i], BV(8, uint64(ps[i]))))
		}
		return BoolV{And(conj...)}, true
	}
	e.intercept["net/url.PathUnescape"] = func(e *Engine, fr *Frame, c *Ctx, a []Value, cc *ssa.CallCommon) (Value, bool) {
		s := a[0].(StrV)
		if cs, ok := s.Concrete(); ok {
			u, err := url.PathUnescape(cs)
			if err != nil {
				return TupleV{[]Value{StrC(""), mkErr(StrC("invalid URL escape"))}}, true
			}
			return TupleV{[]Value{StrC(u), nilIface()}}, true
		}
		if s.R != nil {
			// piece-wise: a constant piece is decoded concretely, a piece that is the URL-escaped form of x decodes to x
			// (lemma PathUnescape(escape(x, fragment)) == x, checked by selftest), any other piece must be free of '%'
			nr := &Rope{}
			var pct []*Term
			for _, tok := range s.R.Toks {
				var nt []StrV
				for _, p := range tok {
					switch {
					case p.UEscOf != nil:
						nt = append(nt, *p.UEscOf)
					default:
						if cs, ok := p.Concrete(); ok {
							u, err := url.PathUnescape(cs)
							if err != nil || strings.Contains(u, "/") != strings.Contains(cs, "/") {
								unsup("PathUnescape model: constant piece %q", cs)
							}
							nt = append(nt, flatC(u))
							continue
						}
						f := fl(p)
						for i, b := range f.B {
							pct = append(pct, And(Ult(BV(64, uint64(i)), f.Len), Eq(b, BV(8, '%'))))
						}
						nt = append(nt, p)
					}
				}
				nr.Toks = append(nr.Toks, nt)
			}
			if len(pct) > 0 {
				e.Obls = append(e.Obls, Obligation{Kind: "assert", ID: "engine: url.PathUnescape model needs '%'-free symbolic pieces", Cond: And(c.S.PC, Or(pct...))})
			}
			// unescaped pieces may contain '/', so the result is only a rope if every decoded piece is still '/'-free;
			// keys and names never contain a raw '/' inside a token except through %2F, which escape() does not emit for '/'
			return TupleV{[]Value{StrV{Len: ropeLen(nr), R: nr}, nilIface()}}, true
		}
		f := fl(s)
		var pct []*Term
		for i, b := range f.B {
			pct = append(pct, And(Ult(BV(64, uint64(i)), f.Len), Eq(b, BV(8, '%'))))
		}
		e.Obls = append(e.Obls, Obligation{Kind: "assert", ID: "engine: url.PathUnescape model needs a '%'-free symbolic string", Cond: And(c.S.PC, Or(pct...))})
		return TupleV{[]Value{a[0], nilIface()}}, true
	}
	e.intercept["path.Dir"] = func(e *Engine, fr *Frame, c *Ctx, a []Value, _ *ssa.CallCommon) (Value, bool) {
		s := a[0].(StrV)
		if s.R == nil || len(s.R.Toks) < 2 {
			if cs, ok := s.Concrete(); ok {
				return StrC(path.Dir(cs)), true
			}
			unsup("path.Dir model needs a rope with >= 2 tokens (rope: %v, toks %d, choice %v, lenconst %v)", s.R != nil, ntoks(s), s.Ch != nil, s.Len.IsConst())
		}
		r := &Rope{Toks: s.R.Toks[:len(s.R.Toks)-1]}
		return StrV{Len: ropeLen(r), R: r}, true
	}
	e.intercept["strconv.Atoi"] = func(e *Engine, fr *Frame, c *Ctx, a []Value, _ *ssa.CallCommon) (Value, bool) {
		errV := mkErr(StrC("strconv.Atoi: invalid syntax"))
		if s, ok := a[0].(StrV).Concrete(); ok {
			n, err := strconv.Atoi(s)
			if err != nil {
				return TupleV{[]Value{IntV{BV(64, 0)}, errV}}, true
			}
			return TupleV{[]Value{IntV{BV(64, uint64(int64(n)))}, nilIface()}}, true
		}
		f := fl(a[0].(StrV))
		// digits only (a leading sign is outside the model: asserted below); numbers of more than 6 digits are treated
		// as invalid (they designate no entry of the bounded documents either way)
		valid := And(Not(Eq(f.Len, BV(64, 0))), Ule(f.Len, BV(64, 6)))
		if len(f.B) > 6 {
			f.B = f.B[:6]
		}
		var val *Term = BV(64, 0)
		for i, b := range f.B {
			live := Ult(BV(64, uint64(i)), f.Len)
			isDigit := And(Ule(BV(8, '0'), b), Ule(b, BV(8, '9')))
			valid = And(valid, Or(Not(live), isDigit))
			d := Resize(Sub(b, BV(8, '0')), 64, false)
			val = Ite(live, Add(mulConst10(val), d), val)
		}
		if len(f.B) > 0 {
			sign := And(Ult(BV(64, 0), f.Len), Or(Eq(f.B[0], BV(8, '+')), Eq(f.B[0], BV(8, '-'))))
			e.Obls = append(e.Obls, Obligation{Kind: "assert", ID: "engine: strconv.Atoi model does not handle a sign on a symbolic string", Cond: And(c.S.PC, sign)})
		}
		ok := TupleV{[]Value{IntV{withIv(val, 0, 999999)}, nilIface()}}
		bad := TupleV{[]Value{IntV{BV(64, 0)}, errV}}
		return mergeV(valid, ok, bad), true
	}
	// spec.ExpandSpec with SkipSchemas on documents without param/response/pathitem refs: identity (spike)
	e.intercept["github.com/go-openapi/spec.ExpandSpec"] = func(e *Engine, fr *Frame, c *Ctx, a []Value, _ *ssa.CallCommon) (Value, bool) {
		return nilIface(), true
	}
	// sort.Strings: compare-exchange network on flat strings (n <= 4)
	e.intercept["sort.Strings"] = func(e *Engine, fr *Frame, c *Ctx, a []Value, _ *ssa.CallCommon) (Value, bool) {
		sv := a[0].(SliceV)
		// merged view of the slice (elements and length) over all alternatives
		n := 0
		for _, sa := range sv.Alts {
			if sa.Obj == -1 {
				continue
			}
			h := sa.Cap
			if sa.Len.hasIv && int(sa.Len.hi) < h {
				h = int(sa.Len.hi)
			}
			n = max(n, h)
		}
		var ln *Term = BV(64, 0)
		el := make([]Value, n)
		for i := range el {
			el[i] = StrC("")
		}
		for ai, sa := range sv.Alts {
			if ai == 0 {
				ln = sa.Len
			} else {
				ln = Ite(sa.G, sa.Len, ln)
			}
			if sa.Obj == -1 {
				continue
			}
			arr := e.arr(c, sa.Obj)
			for i := 0; i < n && sa.Off+i < len(arr.E); i++ {
				if ai == 0 {
					el[i] = arr.E[sa.Off+i]
				} else {
					el[i] = mergeV(sa.G, arr.E[sa.Off+i], el[i])
				}
			}
		}
		for i := 0; i < n; i++ {
			for j := 0; j+1 < n-i; j++ {
				x, y := fl(el[j].(StrV)), fl(el[j+1].(StrV))
				live := Ult(BV(64, uint64(j+1)), ln)
				swap := And(live, lexLess(y, x))
				el[j] = mergeV(swap, y, x)
				el[j+1] = mergeV(swap, x, y)
			}
		}
		// write back: under alternative i's guard the merged view is alternative i's view
		for _, sa := range sv.Alts {
			if sa.Obj == -1 {
				continue
			}
			arr := e.arr(c, sa.Obj)
			ne := append([]Value(nil), arr.E...)
			for i := 0; i < n && sa.Off+i < len(ne); i++ {
				ne[sa.Off+i] = el[i]
			}
			c.S.Heap[sa.Obj] = &Obj{Val: ArrayV{ne}, Epoch: c.S.Heap[sa.Obj].Epoch}
		}
		return nil, true
	}
	// sort.Sort(x): bounded bubble sort driving the real Len/Less/Swap methods of x (exact whenever Less is a strict
	// weak order on the elements, which the harnesses check separately for the comparators of the code under test)
	e.intercept["sort.Sort"] = func(e *Engine, fr *Frame, c *Ctx, a []Value, _ *ssa.CallCommon) (Value, bool) {
		iv := a[0].(IfaceV)
		if len(iv.Alts) != 1 || iv.Alts[0].Typ == nil {
			unsup("sort.Sort model: receiver with several dynamic types")
		}
		t := iv.Alts[0].Typ
		recv := iv.Alts[0].V
		meth := func(name string) *ssa.Function {
			fn := e.prog.LookupMethod(t, nil, name)
			if fn == nil {
				unsup("sort.Sort model: no method %s on %v", name, t)
			}
			return fn
		}
		if sv, isSlice := recv.(SliceV); isSlice {
			if st, isS := t.Underlying().(*types.Slice); isS && e.sortGuarded(fr, c, sv, st.Elem(), meth("Less")) {
				return nil, true
			}
		}
		lenV, nc := e.call(fr, c, meth("Len"), []Value{recv}, nil)
		if nc == nil {
			return nil, false
		}
		c.S = nc.S
		ln := lenV.(IntV).T
		n := 0
		switch {
		case ln.IsConst():
			n = int(ln.val)
		case ln.hasIv && ln.hi <= 16:
			n = int(ln.hi)
		default:
			unsup("sort.Sort model: unbounded length")
		}
		less, swap := meth("Less"), meth("Swap")
		for i := 0; i < n; i++ {
			for j := 0; j+1 < n-i; j++ {
				inRange := Ult(BV(64, uint64(j+1)), ln)
				if inRange.IsFalse() {
					continue
				}
				cx := c.fork(inRange)
				lv, lc := e.call(fr, cx, less, []Value{recv, IntV{BV(64, uint64(j + 1))}, IntV{BV(64, uint64(j))}}, nil)
				if lc == nil {
					continue
				}
				doSwap := And(inRange, lv.(BoolV).T)
				if doSwap.IsFalse() {
					continue
				}
				sx := &Ctx{S: lc.S.clone(), Regs: c.Regs}
				sx.S.PC = And(c.S.PC, doSwap)
				_, sc := e.call(fr, sx, swap, []Value{recv, IntV{BV(64, uint64(j))}, IntV{BV(64, uint64(j + 1))}}, nil)
				if sc == nil {
					continue
				}
				keep := &Ctx{S: c.S.clone(), Regs: map[ssa.Value]Value{}}
				keep.S.PC = And(c.S.PC, Not(doSwap))
				mm := e.mergeCtx(doSwap, &Ctx{S: sc.S, Regs: map[ssa.Value]Value{}}, keep, c.S.PC)
				c.S = mm.S
			}
		}
		return nil, true
	}
	e.intercept["path.Base"] = func(e *Engine, fr *Frame, c *Ctx, a []Value, _ *ssa.CallCommon) (Value, bool) {
		s := a[0].(StrV)
		if cs, ok := s.Concrete(); ok {
			return StrC(path.Base(cs)), true
		}
		if s.R == nil {
			unsup("path.Base model needs a rope")
		}
		last := s.R.Toks[len(s.R.Toks)-1]
		r := &Rope{Toks: [][]StrV{last}}
		return StrV{Len: ropeLen(r), R: r}, true
	}
	// path.Join(elems...) for clean, non-empty elements: join with "/"
	e.intercept["path.Join"] = func(e *Engine, fr *Frame, c *Ctx, a []Value, _ *ssa.CallCommon) (Value, bool) {
		sl := a[0].(SliceV).Alts[0]
		arr := e.arr(c, sl.Obj)
		n := int(sl.Len.val)
		var res StrV
		started := false
		allConcrete := true
		var parts []string
		for i := 0; i < n; i++ {
			cs, ok := arr.E[sl.Off+i].(StrV).Concrete()
			allConcrete = allConcrete && ok
			parts = append(parts, cs)
		}
		if allConcrete {
			return StrC(path.Join(parts...)), true
		}
		for i := 0; i < n; i++ {
			el := arr.E[sl.Off+i].(StrV)
			if cs, ok := el.Concrete(); ok {
				if cs == "" {
					continue // empty elements are ignored
				}
				if started && (strings.HasPrefix(cs, "/") || strings.HasSuffix(cs, "/")) || strings.Contains(cs, "//") || strings.Contains(cs, ".") {
					unsup("path.Join model: constant element %q needs cleaning", cs)
				}
			}
			switch {
			case !started:
				res, started = el, true
			default:
				if rs, ok := res.Concrete(); ok && strings.HasSuffix(rs, "/") {
					res = strConcat(res, el) // "/" + x
				} else {
					res = strConcat(strConcat(res, StrC("/")), el)
				}
			}
		}
		if !started {
			return StrC(""), true
		}
		return res, true
	}
	redirect := func(from, to string) {
		e.intercept[from] = func(e *Engine, fr *Frame, c *Ctx, a []Value, _ *ssa.CallCommon) (Value, bool) {
			fn := e.harnessPkg.Func(to)
			if fn == nil {
				unsup("model %s missing in harness", to)
			}
			v, nc := e.call(fr, c, fn, a, nil)
			if nc == nil {
				return nil, false
			}
			c.S = nc.S
			return v, true
		}
	}
	redirect("github.com/go-openapi/jsonpointer.Unescape", "vrfModelUnescape")
	slowUnescape := e.intercept["github.com/go-openapi/jsonpointer.Unescape"]
	e.intercept["github.com/go-openapi/jsonpointer.Unescape"] = func(e *Engine, fr *Frame, c *Ctx, a []Value, cc *ssa.CallCommon) (Value, bool) {
		s := a[0].(StrV)
		// fast path (lemma Unescape(Escape(x)) == x, checked by selftest): a single-piece token that is an Escape result
		if s.EscOf != nil {
			return *s.EscOf, true
		}
		if s.R != nil && len(s.R.Toks) == 1 && len(s.R.Toks[0]) == 1 && s.R.Toks[0][0].EscOf != nil {
			return *s.R.Toks[0][0].EscOf, true
		}
		if cs, ok := s.Concrete(); ok {
			return StrC(strings.ReplaceAll(strings.ReplaceAll(cs, "~1", "/"), "~0", "~")), true
		}
		if s.Plain {
			return s, true
		}
		if s.R != nil && len(s.R.Toks) == 1 && len(s.R.Toks[0]) > 1 {
			// a token made of several pieces, each an Escape result, a '~'-free name or a '~'-free constant: no escape
			// sequence straddles a boundary (an Escape result never ends in a bare '~'), so Unescape works piece by piece
			// (lemma checked by selftest)
			var res StrV
			ok := true
			for i, p := range s.R.Toks[0] {
				var m StrV
				switch {
				case p.EscOf != nil:
					m = *p.EscOf
				case p.Plain:
					m = p
				default:
					cs, isC := p.Concrete()
					if !isC || strings.Contains(cs, "~") {
						ok = false
					}
					m = StrC(cs)
				}
				if !ok {
					break
				}
				if i == 0 {
					res = m
				} else {
					res = strConcat(res, m)
				}
			}
			if ok {
				return res, true
			}
		}
		if os.Getenv("SYMGO_DEBUG_UNESC") != "" {
			f := fl(s)
			fmt.Printf("    [slow-unescape] in %s: rope=%v toks=%d pieces0=%d len<=%d lenconst=%v\n", fr.Fn.String(), s.R != nil, ntoks(s), func() int { if s.R != nil { return len(s.R.Toks[0]) }; return -1 }(), len(f.B), f.Len.IsConst())
		}
		return slowUnescape(e, fr, c, a, cc)
	}
	redirect("github.com/go-openapi/swag.ToGoName", "vrfModelIdent")
	redirect("github.com/go-openapi/swag.ToJSONName", "vrfModelJSONName")
	{
		// the mangled name holds letters and digits only: a single '/'-free piece
		inner := e.intercept["github.com/go-openapi/swag.ToJSONName"]
		e.intercept["github.com/go-openapi/swag.ToJSONName"] = func(e *Engine, fr *Frame, c *Ctx, a []Value, cc *ssa.CallCommon) (Value, bool) {
			v, ok := inner(e, fr, c, a, cc)
			if !ok || v == nil {
				return v, ok
			}
			f := fl(v.(StrV))
			if cs, isC := f.Concrete(); isC {
				return StrC(cs), true
			}
			return StrV{Len: f.Len, B: f.B, Plain: true, R: &Rope{Toks: [][]StrV{{StrV{Len: f.Len, B: f.B, Plain: true}}}}}, true
		}
	}
	// swag.FromDynamicJSON(src, dst) between two values of the same type: a JSON round trip = deep copy (modulo the
	// serialization normal form)
	e.intercept["github.com/go-openapi/swag.FromDynamicJSON"] = func(e *Engine, fr *Frame, c *Ctx, a []Value, _ *ssa.CallCommon) (Value, bool) {
		src, dst := a[0].(IfaceV), a[1].(IfaceV)
		if len(src.Alts) != 1 || len(dst.Alts) != 1 || src.Alts[0].Typ == nil || dst.Alts[0].Typ == nil || !types.Identical(src.Alts[0].Typ, dst.Alts[0].Typ) {
			unsup("FromDynamicJSON model: source and target must have the same pointer type")
		}
		sp, ok1 := src.Alts[0].V.(PtrV)
		dp, ok2 := dst.Alts[0].V.(PtrV)
		if !ok1 || !ok2 {
			unsup("FromDynamicJSON model: pointers expected")
		}
		v := e.load(c, sp, "FromDynamicJSON")
		if v == nil {
			return nil, false
		}
		e.store(c, dp, e.deepCopy(c, v, map[int]int{}), "FromDynamicJSON")
		return nilIface(), true
	}
	redirect("github.com/go-openapi/spec.ExpandSchema", "vrfModelExpandSchema")
	redirect("github.com/go-openapi/spec.ResolveRefWithBase", "vrfModelResolveRef")
	concreteOnly := func(name string, f func(string) string) {
		e.intercept[name] = func(e *Engine, fr *Frame, c *Ctx, a []Value, _ *ssa.CallCommon) (Value, bool) {
			s, ok := a[0].(StrV).Concrete()
			if !ok {
				unsup("%s on symbolic string", name)
			}
			return StrC(f(s)), true
		}
	}
	e.intercept["strconv.Itoa"] = func(e *Engine, fr *Frame, c *Ctx, a []Value, _ *ssa.CallCommon) (Value, bool) {
		t := a[0].(IntV).T
		if t.IsConst() {
			return StrC(fmt.Sprint(int64(t.val))), true
		}
		if !t.hasIv || t.hi-t.lo > 64 || t.hi >= 1<<62 {
			unsup("Itoa on symbolic int without a small non-negative interval")
		}
		// case split over the interval; decimal digits never contain '/', so the result is a one-piece rope
		f := flatC(fmt.Sprint(t.hi))
		for v := int64(t.hi) - 1; v >= int64(t.lo); v-- {
			f = flatMerge(Eq(t, BV(64, uint64(v))), flatC(fmt.Sprint(v)), f) // a flat piece (mergeV would build a lazy choice)
		}
		return StrV{Len: f.Len, B: f.B, R: &Rope{Toks: [][]StrV{{f}}}}, true
	}
	_ = concreteOnly
	caseMap := func(name string, upper bool) {
		e.intercept[name] = func(e *Engine, fr *Frame, c *Ctx, a []Value, _ *ssa.CallCommon) (Value, bool) {
			sv := a[0].(StrV)
			if cs, ok := sv.Concrete(); ok {
				if upper {
					return StrC(strings.ToUpper(cs)), true
				}
				return StrC(strings.ToLower(cs)), true
			}
			f := fl(sv)
			out := make([]*Term, len(f.B))
			var nonASCII []*Term
			for i, b := range f.B {
				live := Ult(BV(64, uint64(i)), f.Len)
				nonASCII = append(nonASCII, And(live, Ule(BV(8, 0x80), b)))
				if upper {
					isLower := And(Ule(BV(8, 'a'), b), Ule(b, BV(8, 'z')))
					out[i] = Ite(isLower, Sub(b, BV(8, 32)), b)
				} else {
					isUpper := And(Ule(BV(8, 'A'), b), Ule(b, BV(8, 'Z')))
					out[i] = Ite(isUpper, Add(b, BV(8, 32)), b)
				}
			}
			// the byte-wise model is exact for ASCII only: the harness must have assumed it
			e.Obls = append(e.Obls, Obligation{Kind: "assert", ID: "engine: " + name + " model needs an ASCII argument", Cond: And(c.S.PC, Or(nonASCII...))})
			res := StrV{Len: f.Len, B: out}
			if sv.R != nil && len(sv.R.Toks) == 1 {
				res.R = &Rope{Toks: [][]StrV{{StrV{Len: f.Len, B: out}}}} // case mapping never introduces '/'
			}
			return res, true
		}
	}
	e.intercept["strings.EqualFold"] = func(e *Engine, fr *Frame, c *Ctx, a []Value, _ *ssa.CallCommon) (Value, bool) {
		x, y := fl(a[0].(StrV)), fl(a[1].(StrV))
		if cx, ok := x.Concrete(); ok {
			if cy, ok := y.Concrete(); ok {
				return BoolV{BoolC(strings.EqualFold(cx, cy))}, true
			}
		}
		lower := func(b *Term) *Term {
			return Ite(And(Ule(BV(8, 'A'), b), Ule(b, BV(8, 'Z'))), Add(b, BV(8, 32)), b)
		}
		conj := []*Term{Eq(x.Len, y.Len)}
		var nonASCII []*Term
		n := min(len(x.B), len(y.B))
		for i := 0; i < n; i++ {
			live := Ult(BV(64, uint64(i)), x.Len)
			conj = append(conj, Or(Not(live), Eq(lower(x.B[i]), lower(y.B[i]))))
		}
		for _, s := range []StrV{x, y} {
			for i, b := range s.B {
				nonASCII = append(nonASCII, And(Ult(BV(64, uint64(i)), s.Len), Ule(BV(8, 0x80), b)))
			}
		}
		if len(x.B) != len(y.B) {
			conj = append(conj, Ule(x.Len, BV(64, uint64(n))))
		}
		e.Obls = append(e.Obls, Obligation{Kind: "assert", ID: "engine: strings.EqualFold model needs ASCII arguments", Cond: And(c.S.PC, Or(nonASCII...))})
		return BoolV{And(conj...)}, true
	}
	caseMap("strings.ToUpper", true)
	caseMap("strings.ToLower", false)
	e.intercept["reflect.ValueOf"] = func(e *Engine, fr *Frame, c *Ctx, a []Value, cc *ssa.CallCommon) (Value, bool) {
		return zero(cc.Signature().Results().At(0).Type()), true
	}
	e.intercept["(reflect.Value).Kind"] = func(e *Engine, fr *Frame, c *Ctx, a []Value, cc *ssa.CallCommon) (Value, bool) {
		return IntV{BV(64, 0)}, true
	}
	// (*net/url.URL).String (spike): "#"+Fragment, or "" when Fragment is empty; no escaping
	e.intercept["(*net/url.URL).String"] = func(e *Engine, fr *Frame, c *Ctx, a []Value, cc *ssa.CallCommon) (Value, bool) {
		if pv := a[0].(PtrV); len(pv.Alts) > 1 {
			// render each candidate URL on its own (a whole-document reference and a fragment reference render differently)
			var res Value
			for k := len(pv.Alts) - 1; k >= 0; k-- {
				alt := pv.Alts[k]
				if alt.Obj < 0 {
					continue
				}
				v, _ := e.intercept["(*net/url.URL).String"](e, fr, c, []Value{PtrV{[]PtrAlt{{G: TTrue, Obj: alt.Obj, Path: alt.Path}}}}, cc)
				if res == nil {
					res = v
				} else {
					res = mergeV(alt.G, v, res)
				}
			}
			if res != nil {
				return res, true
			}
		}
		u := e.load(c, a[0].(PtrV), "URL.String").(StructV)
		st := cc.Signature().Recv().Type().(*types.Pointer).Elem().Underlying().(*types.Struct)
		for i := 0; i < st.NumFields(); i++ {
			if st.Field(i).Name() == "Path" {
				if ps, ok := u.F[i].(StrV).Concrete(); ok && ps != "" {
					return StrC(ps), true // concrete relative document reference (safe characters only, see MustCreateRef)
				}
			}
		}
		for i := 0; i < st.NumFields(); i++ {
			if st.Field(i).Name() == "Fragment" {
				var render func(f StrV) StrV
				render = func(f StrV) StrV {
					if f.B == nil && f.Ch != nil {
						return mergeV(f.Ch.C, render(f.Ch.A), render(f.Ch.B)).(StrV)
					}
					if f.R != nil {
						r := &Rope{}
						for ti, tok := range f.R.Toks {
							var nt []StrV
							if ti == 0 {
								nt = append(nt, flatC("#"))
							}
							for _, p := range tok {
								orig := p
								ep := urlEscFrag(p)
								ep.UEscOf = &orig
								nt = append(nt, ep)
							}
							r.Toks = append(r.Toks, nt)
						}
						res := StrV{Len: ropeLen(r), R: r}
						if f.Len.IsConst() {
							if f.Len.val == 0 {
								return StrC("")
							}
							return res
						}
						return mergeV(Eq(f.Len, BV(64, 0)), StrC(""), res).(StrV)
					}
					return mergeV(Eq(f.Len, BV(64, 0)), StrC(""), strConcat(StrC("#"), urlEscFrag(fl(f)))).(StrV)
				}
				return render(u.F[i].(StrV)), true
			}
		}
		return nil, false
	}
	// GetPointer: tokens computed lazily from the URL fragment by the Go model vrfModelTokens
	e.intercept["(*github.com/go-openapi/jsonreference.Ref).GetPointer"] = func(e *Engine, fr *Frame, c *Ctx, a []Value, cc *ssa.CallCommon) (Value, bool) {
		r := e.load(c, a[0].(PtrV), "GetPointer").(StructV)
		pt := cc.Signature().Results().At(0).Type().(*types.Pointer).Elem()
		up := r.F[0].(PtrV)
		st := r0type(cc).Field(0).Type().(*types.Pointer).Elem().Underlying().(*types.Struct)
		fragIdx := -1
		for i := 0; i < st.NumFields(); i++ {
			if st.Field(i).Name() == "Fragment" {
				fragIdx = i
			}
		}
		fn := e.harnessPkg.Func("vrfModelTokens")
		var alts []PtrAlt
		for _, al := range up.Alts {
			if al.G.IsFalse() {
				continue
			}
			var f StrV = StrC("")
			if al.Obj != -1 {
				f = c.S.Heap[al.Obj].Val.(StructV).F[fragIdx].(StrV)
			}
			var tv Value
			if f.R != nil && len(f.R.Toks) >= 2 && len(f.R.Toks[0]) == 0 {
				// the fragment is "/"-joined pieces that contain no "/" themselves: its tokens are the rope tokens
				el := make([]Value, 0, len(f.R.Toks)-1)
				for _, tok := range f.R.Toks[1:] {
					nr := &Rope{Toks: [][]StrV{tok}}
					t := StrV{Len: ropeLen(nr), R: nr}
					if len(tok) == 1 {
						t.EscOf = tok[0].EscOf
						t.Plain = tok[0].Plain
					}
					el = append(el, t)
				}
				id := e.newObj(c, &Obj{Val: ArrayV{el}})
				tv = SliceV{[]SliceAlt{{TTrue, id, 0, BV(64, uint64(len(el))), len(el)}}}
			} else {
				v, nc := e.call(fr, c, fn, []Value{f}, nil)
				if nc == nil {
					return nil, false
				}
				c.S = nc.S
				tv = v
			}
			pv := zero(pt).(StructV)
			pv.F[0] = tv
			id := e.newObj(c, &Obj{Val: pv})
			alts = append(alts, PtrAlt{G: al.G, Obj: id})
		}
		if len(alts) == 1 {
			alts[0].G = TTrue
		}
		return PtrV{alts}, true
	}
	// spec.MustCreateRef for fragment-only refs "#"+f
	e.intercept["github.com/go-openapi/spec.MustCreateRef"] = func(e *Engine, fr *Frame, c *Ctx, a []Value, cc *ssa.CallCommon) (Value, bool) {
		s := fl(a[0].(StrV))
		if cs, ok := s.Concrete(); ok && cs != "" && !strings.ContainsAny(cs, "#?:%\\ ") && !strings.HasPrefix(cs, "/") {
			// a concrete relative reference to a whole document ("dir/file.json"): URL{Path: cs}, no fragment, no pointer
			rt := cc.Signature().Results().At(0).Type()
			v := zero(rt)
			jr := rt.Underlying().(*types.Struct).Field(0).Type().Underlying().(*types.Struct)
			ut := jr.Field(0).Type().(*types.Pointer).Elem()
			us := ut.Underlying().(*types.Struct)
			uv := zero(ut).(StructV)
			for i := 0; i < us.NumFields(); i++ {
				if us.Field(i).Name() == "Path" {
					uv.F[i] = StrC(cs)
				}
			}
			id := e.newObj(c, &Obj{Val: uv})
			v = setPath(v, []int{0, 0}, PtrV{[]PtrAlt{{G: TTrue, Obj: id}}})
			for i := 0; i < jr.NumFields(); i++ {
				if jr.Field(i).Name() == "HasURLPathOnly" {
					v = setPath(v, []int{0, i}, BoolV{TTrue})
				}
			}
			return v, true
		}
		if len(s.B) == 0 || !s.B[0].IsConst() || s.B[0].val != '#' {
			unsup("MustCreateRef model: only fragment refs and concrete relative document refs")
		}
		f := StrV{Len: Sub(s.Len, BV(64, 1)), B: s.B[1:]}
		if r0 := a[0].(StrV).R; r0 != nil && len(r0.Toks[0]) >= 1 {
			if cs, ok := r0.Toks[0][0].Concrete(); ok && cs == "#" {
				nr := &Rope{Toks: append([][]StrV{r0.Toks[0][1:]}, r0.Toks[1:]...)}
				f = StrV{Len: ropeLen(nr), R: nr}
			}
		}
		rt := cc.Signature().Results().At(0).Type()
		v := zero(rt)
		jr := rt.Underlying().(*types.Struct).Field(0).Type().Underlying().(*types.Struct)
		ut := jr.Field(0).Type().(*types.Pointer).Elem()
		us := ut.Underlying().(*types.Struct)
		uv := zero(ut).(StructV)
		for i := 0; i < us.NumFields(); i++ {
			if us.Field(i).Name() == "Fragment" {
				uv.F[i] = f
			}
		}
		id := e.newObj(c, &Obj{Val: uv})
		v = setPath(v, []int{0, 0}, PtrV{[]PtrAlt{{G: TTrue, Obj: id}}})
		for i := 0; i < jr.NumFields(); i++ {
			if jr.Field(i).Name() == "HasFragmentOnly" {
				v = setPath(v, []int{0, i}, BoolV{Not(Eq(f.Len, BV(64, 0)))})
			}
		}
		return v, true
	}
}

func r0type(cc *ssa.CallCommon) *types.Struct {
	return cc.Signature().Recv().Type().(*types.Pointer).Elem().Underlying().(*types.Struct)
}

// urlEscFrag: net/url escape(s, encodeFragment) on a flat string (per byte: itself or %XX)
func urlEscFrag(s StrV) StrV {
	s = fl(s)
	if cs, ok := s.Concrete(); ok {
		out := ""
		for i := 0; i < len(cs); i++ {
			c := cs[i]
			if fragKeep(c) {
				out += string(c)
			} else {
				out += fmt.Sprintf("%%%02X", c)
			}
		}
		return flatC(out)
	}
	L := len(s.B)
	out := make([]*Term, 3*L)
	for i := range out {
		out[i] = BV(8, 0)
	}
	pos := BV(64, 0)
	hex := func(n *Term) *Term { // n is a 4-bit value in a bv8
		return Ite(Ult(n, BV(8, 10)), Add(n, BV(8, '0')), Add(n, BV(8, 'A'-10)))
	}
	for i := 0; i < L; i++ {
		live := Ult(BV(64, uint64(i)), s.Len)
		ch := s.B[i]
		var keep *Term = TFalse
		for c := 0; c < 256; c++ {
			if fragKeep(byte(c)) {
				keep = Or(keep, Eq(ch, BV(8, uint64(c))))
			}
		}
		hi := mk(&Term{op: OLshr, width: 8, args: []*Term{ch, BV(8, 4)}})
		lo := mk(&Term{op: OBvAnd, width: 8, args: []*Term{ch, BV(8, 15)}})
		b0 := Ite(keep, ch, BV(8, '%'))
		for j := range out {
			jj := BV(64, uint64(j))
			out[j] = Ite(And(live, Eq(pos, jj)), b0, out[j])
			out[j] = Ite(And(live, Not(keep), Eq(Add(pos, BV(64, 1)), jj)), hex(hi), out[j])
			out[j] = Ite(And(live, Not(keep), Eq(Add(pos, BV(64, 2)), jj)), hex(lo), out[j])
		}
		pos = Ite(live, Ite(keep, Add(pos, BV(64, 1)), Add(pos, BV(64, 3))), pos)
	}
	return StrV{Len: pos, B: out}
}

func fragKeep(c byte) bool {
	if 'a' <= c && c <= 'z' || 'A' <= c && c <= 'Z' || '0' <= c && c <= '9' {
		return true
	}
	return strings.IndexByte("-_.~$&+,/:;=?@!()*", c) >= 0
}

// lexLess: a < b on flat strings (bytewise, shorter prefix first)
func lexLess(a, b StrV) *Term {
	n := max(len(a.B), len(b.B))
	var res *Term = TFalse
	for i := n - 1; i >= 0; i-- {
		ii := BV(64, uint64(i))
		aIn, bIn := Ult(ii, a.Len), Ult(ii, b.Len)
		var ab, bb *Term = BV(8, 0), BV(8, 0)
		if i < len(a.B) {
			ab = a.B[i]
		}
		if i < len(b.B) {
			bb = b.B[i]
		}
		// at position i: if a ended -> less iff b continues; if b ended -> false; else compare bytes
		res = Ite(Not(aIn), bIn, Ite(Not(bIn), TFalse, Ite(Ult(ab, bb), TTrue, Ite(Ult(bb, ab), TFalse, res))))
	}
	// strings longer than n cannot occur
	return Ite(And(Ule(a.Len, BV(64, uint64(n))), Ule(b.Len, BV(64, uint64(n)))), resOrLen(res, a, b, n), TFalse)
}

func resOrLen(res *Term, a, b StrV, n int) *Term {
	if n == 0 {
		return Ult(a.Len, b.Len)
	}
	return res
}

// mulConst10: 10*x as shifts and adds (keeps the bit-blasted formula small)
func mulConst10(x *Term) *Term {
	if x.IsConst() {
		return BV(64, x.val*10)
	}
	return Add(BinBV(OShl, x, BV(64, 3)), BinBV(OShl, x, BV(64, 1)))
}

func ntoks(s StrV) int {
	if s.R == nil {
		return -1
	}
	return len(s.R.Toks)
}
