package main

import (
	"bytes"
	"encoding/json"
	"fmt"
	"os"
	"os/exec"
	"path/filepath"
	"sort"
	"strings"
	"sync"
	"time"

	"golang.org/x/tools/go/ssa"
)

// RunSpec describes one symbolic execution of one harness entry point.
type RunSpec struct {
	Entry     string         `json:"entry"`
	Params    map[string]int `json:"params,omitempty"`
	Unwind    int            `json:"unwind,omitempty"`
	Depth     int            `json:"depth,omitempty"`
	Timeout   int            `json:"timeout,omitempty"` // per obligation, seconds
	NoFeas    bool           `json:"nofeas,omitempty"`
	MaxWit    int            `json:"max_witness,omitempty"` // cover witnesses replayed natively
	KnownMode string         `json:"known_mode,omitempty"`  // "" | "exclude" | "confirm:<key>"
	OpenKeys  []string       `json:"open_keys,omitempty"`
	// set by the driver
	Prop      string `json:"prop,omitempty"`
	ReplayBin string `json:"replay_bin,omitempty"` // path of the native replay test binary (may appear later)
	ReplayDir string `json:"replay_dir,omitempty"` // where replay files are written
	Cross     bool   `json:"cross,omitempty"`      // cross-check final obligations with z3 4.8.12 and cvc5
	Seed      int    `json:"seed,omitempty"`
	RunID     int    `json:"run_id,omitempty"`
}

type OblResult struct {
	Kind       string  `json:"kind"`
	ID         string  `json:"id"`
	Result     string  `json:"result"` // unsat | sat | unknown | timeout | error
	SolverS    float64 `json:"solver_s"`
	Folded     bool    `json:"folded,omitempty"` // decided by constant folding, no solver query
	Solver     string  `json:"solver,omitempty"`
	Replay     string  `json:"replay,omitempty"`
	Reproduced string  `json:"reproduced,omitempty"` // yes | no | assume-failed | n/a
	Native     string  `json:"native,omitempty"`
	Cross      string  `json:"cross,omitempty"`
	Witness    string  `json:"witness,omitempty"`
}

type RunResult struct {
	Spec        RunSpec        `json:"spec"`
	LoadS       float64        `json:"load_s"`
	ExecS       float64        `json:"exec_s"`
	SolveS      float64        `json:"solve_wall_s"`
	SolverCPU   float64        `json:"solver_cpu_s"`
	Steps       int            `json:"ssa_instructions_executed"`
	Forks       int            `json:"forks"`
	Merges      int            `json:"merges"`
	Terms       int            `json:"terms"`
	FeasQueries int            `json:"feasibility_queries"`
	FeasS       float64        `json:"feasibility_s"`
	Funcs       map[string]int `json:"functions_encoded"` // name -> SSA instruction count
	Obls        []OblResult    `json:"obligations"`
	Unsupported string         `json:"unsupported,omitempty"`
	Violations  []OblResult    `json:"violations,omitempty"` // reproduced
	Spurious    []OblResult    `json:"spurious,omitempty"`
	Undecided   []OblResult    `json:"undecided,omitempty"`
	Vacuous     []OblResult    `json:"vacuous,omitempty"`
	Witnessed   int            `json:"witnesses_replayed_ok"`
	WitnessBad  []OblResult    `json:"witness_disagreements,omitempty"`
	CrossDis    []OblResult    `json:"cross_solver_disagreements,omitempty"`
	Confirmed   bool           `json:"known_finding_confirmed,omitempty"`
}

func instrCount(fn *ssa.Function) int {
	n := 0
	for _, b := range fn.Blocks {
		n += len(b.Instrs)
	}
	return n
}

// runOne executes spec symbolically, decides all obligations and replays models. Never exits the process.
func runOne(spec RunSpec, verbose bool) *RunResult {
	res := &RunResult{Spec: spec, Funcs: map[string]int{}}
	if spec.Unwind == 0 {
		spec.Unwind = 12
	}
	if spec.Depth == 0 {
		spec.Depth = 40
	}
	if spec.Timeout == 0 {
		spec.Timeout = 120
	}
	Timeout = spec.Timeout
	t0 := time.Now()
	prog, pkg := loadProgram(nil)
	res.LoadS = time.Since(t0).Seconds()
	fn := pkg.Func(spec.Entry)
	if fn == nil {
		res.Unsupported = "no such harness function " + spec.Entry
		return res
	}
	e := newEngine(prog, pkg)
	e.Unwind, e.MaxDepth, e.NoFeas = spec.Unwind, spec.Depth, spec.NoFeas
	e.Params = spec.Params
	e.KnownMode = spec.KnownMode
	e.OpenKeys = map[string]bool{}
	for _, k := range spec.OpenKeys {
		e.OpenKeys[k] = true
	}
	e.Verbose = verbose

	t1 := time.Now()
	func() {
		defer func() {
			if r := recover(); r != nil {
				if u, ok := r.(unsupported); ok {
					res.Unsupported = u.msg
					return
				}
				panic(r)
			}
		}()
		c := &Ctx{S: &State{PC: TTrue, Heap: map[int]*Obj{}}, Regs: map[ssa.Value]Value{}}
		e.runInits(c)
		_, end := e.call(nil, c, fn, nil, nil)
		if end != nil {
			e.Obls = append(e.Obls, Obligation{Kind: "cover", ID: "harness-end-reachable", Cond: end.S.PC})
		} else {
			e.Obls = append(e.Obls, Obligation{Kind: "cover", ID: "harness-end-reachable", Cond: TFalse})
		}
	}()
	res.ExecS = time.Since(t1).Seconds()
	if verbose {
		type kv struct {
			f *ssa.Function
			n int
		}
		var l []kv
		for f, n := range e.stepsBy {
			l = append(l, kv{f, n})
		}
		sort.Slice(l, func(i, j int) bool { return l[i].n > l[j].n })
		for i := 0; i < len(l) && i < 8; i++ {
			fmt.Printf("    steps %8d  calls %6d  %s\n", l[i].n, e.funcsHit[l[i].f.String()], l[i].f)
		}
	}
	res.Steps, res.Forks, res.Merges, res.Terms = e.Steps, e.Forks, e.Merges, len(termList)
	res.FeasQueries, res.FeasS = e.sol.Queries, e.sol.Time.Seconds()
	e.sol.Close()
	for name := range e.funcsHit {
		res.Funcs[name] = e.funcInstrs[name]
	}
	if res.Unsupported != "" {
		return res
	}

	// ---- decide obligations (fresh solver process each, in parallel) ----
	t2 := time.Now()
	obls := dedupObls(e.Obls)
	out := make([]OblResult, len(obls))
	models := make([]map[string]uint64, len(obls))
	workers := 8
	if n := os.Getenv("SYMGO_WORKERS"); n != "" {
		fmt.Sscan(n, &workers)
	}
	// cross-checked in the thorough tier: every cover / frozen-write obligation, an evenly spaced sample of at most 48 of
	// the run's assert obligations and of at most 24 of its (often thousands of) no-panic / unwinding obligations
	crossPick := make([]bool, len(obls))
	var routine, asserts []int
	for i, o := range obls {
		switch o.Kind {
		case "panic", "unwind":
			routine = append(routine, i)
		case "assert":
			asserts = append(asserts, i)
		default:
			crossPick[i] = true
		}
	}
	sample := func(idx []int, n int) {
		step := (len(idx) + n - 1) / n
		if step < 1 {
			step = 1
		}
		for k := 0; k < len(idx); k += step {
			crossPick[idx[k]] = true
		}
	}
	sample(routine, 24)
	sample(asserts, 48)
	var wg sync.WaitGroup
	var mu sync.Mutex
	next := 0
	var cpu time.Duration
	for w := 0; w < workers; w++ {
		wg.Add(1)
		go func() {
			defer wg.Done()
			for {
				mu.Lock()
				i := next
				next++
				mu.Unlock()
				if i >= len(obls) {
					return
				}
				o := obls[i]
				r := OblResult{Kind: o.Kind, ID: o.ID}
				switch {
				case o.Cond.IsFalse():
					r.Result, r.Folded = "unsat", true
				default:
					smt, vars := smtScript(o.Cond, true)
					rs, m, d, who := solvePortfolio(smt, vars, spec.Timeout)
					r.Result, r.SolverS = rs, d.Seconds()
					r.Solver = who
					models[i] = m
					mu.Lock()
					cpu += d
					mu.Unlock()
					if spec.Cross && crossPick[i] {
						// a cross-check that does not finish in a minute is recorded, it is not a disagreement
						ct := spec.Timeout
						if ct > 20 {
							ct = 20
						}
						r.Cross = crossCheck(smt, rs, ct)
					}
				}
				out[i] = r
			}
		}()
	}
	wg.Wait()
	res.SolveS = time.Since(t2).Seconds()
	res.SolverCPU = cpu.Seconds()

	// ---- interpret, replay ----
	nWit := 0
	maxWit := spec.MaxWit
	if maxWit == 0 {
		maxWit = 4
	}
	seq := 0
	for i := range out {
		r := &out[i]
		if strings.HasPrefix(r.Cross, "DISAGREE") {
			res.CrossDis = append(res.CrossDis, *r)
		}
		switch r.Kind {
		case "cover":
			switch r.Result {
			case "sat":
				if nWit < maxWit && r.ID != "harness-end-reachable" || (r.ID == "harness-end-reachable" && nWit <= maxWit) {
					nWit++
					seq++
					path := writeReplay(spec, seq, r, models[i], "witness")
					nat, err := nativeReplay(spec, path)
					r.Witness = summarizeModel(models[i])
					if err != nil {
						r.Native = "replay failed: " + err.Error()
						res.WitnessBad = append(res.WitnessBad, *r)
					} else {
						r.Native = nat.summary()
						// witness agreement: the native run must satisfy the assumptions and hit the cover
						ok := !nat.AssumeFailed && (r.ID == "harness-end-reachable" && nat.Finished || nat.Covered[r.ID])
						if ok {
							res.Witnessed++
							os.Remove(path)
						} else {
							r.Replay = path
							res.WitnessBad = append(res.WitnessBad, *r)
						}
					}
				}
			case "unsat":
				res.Vacuous = append(res.Vacuous, *r)
			default:
				res.Undecided = append(res.Undecided, *r)
			}
		default: // assert | panic | unwind | frozen-write
			switch r.Result {
			case "unsat":
			case "sat":
				seq++
				path := writeReplay(spec, seq, r, models[i], "counterexample")
				r.Replay = path
				r.Witness = summarizeModel(models[i])
				nat, err := nativeReplay(spec, path)
				if err != nil {
					r.Reproduced, r.Native = "no", "replay failed: "+err.Error()
					res.Spurious = append(res.Spurious, *r)
					break
				}
				r.Native = nat.summary()
				rep := false
				switch r.Kind {
				case "assert":
					for _, f := range nat.Failures {
						if f == r.ID {
							rep = true
						}
					}
				case "panic":
					rep = nat.Panicked || nat.Crashed
				case "unwind":
					rep = nat.Timeout || nat.Crashed
				case "frozen-write":
					// a write to shared pre-existing memory during a query: confirmed natively by the race detector
					// (two goroutines run the queries concurrently) or by a visible state change
					rn, rerr := raceReplay(spec, path)
					if rerr == nil && (rn.Race || len(rn.Failures) > 0) {
						rep = true
						r.Native = rn.summary()
					}
					for _, f := range nat.Failures {
						if f == "state-unchanged-by-queries" {
							rep = true
						}
					}
				}
				switch {
				case nat.AssumeFailed:
					r.Reproduced = "assume-failed"
					res.Spurious = append(res.Spurious, *r)
				case rep:
					r.Reproduced = "yes"
					res.Violations = append(res.Violations, *r)
				default:
					r.Reproduced = "no"
					if r.Kind == "unwind" {
						// bound too small, not a verdict
						res.Undecided = append(res.Undecided, *r)
					} else {
						res.Spurious = append(res.Spurious, *r)
					}
				}
			default:
				res.Undecided = append(res.Undecided, *r)
			}
		}
	}
	res.Obls = out
	return res
}

func dedupObls(in []Obligation) []Obligation {
	type k struct {
		kind, id string
		cond     int
	}
	seen := map[k]bool{}
	var out []Obligation
	for _, o := range in {
		kk := k{o.Kind, o.ID, o.Cond.id}
		if seen[kk] {
			continue
		}
		seen[kk] = true
		out = append(out, o)
	}
	return out
}

func summarizeModel(m map[string]uint64) string {
	// strings rebuilt, bools/ints listed when non-zero
	strs := map[string][]byte{}
	lens := map[string]int{}
	var rest []string
	for k, v := range m {
		if strings.HasPrefix(k, "s!") {
			parts := strings.Split(k[2:], "!")
			name, last := strings.Join(parts[:len(parts)-1], "!"), parts[len(parts)-1]
			if last == "len" {
				lens[name] = int(v)
			} else {
				var idx int
				fmt.Sscan(last, &idx)
				b := strs[name]
				for len(b) <= idx {
					b = append(b, 0)
				}
				b[idx] = byte(v)
				strs[name] = b
			}
			continue
		}
		if v != 0 {
			rest = append(rest, fmt.Sprintf("%s=%d", k[2:], int64(v)))
		}
	}
	for name, ln := range lens {
		b := strs[name]
		if ln < 0 || ln > 64 {
			continue // unconstrained in this model (the string is not created on the witnessed path)
		}
		for len(b) < ln {
			b = append(b, 0)
		}
		rest = append(rest, fmt.Sprintf("%s=%q", name, string(b[:ln])))
	}
	sort.Strings(rest)
	s := strings.Join(rest, " ")
	if len(s) > 1500 {
		s = s[:1500] + " …"
	}
	return s
}

func writeReplay(spec RunSpec, seq int, r *OblResult, model map[string]uint64, what string) string {
	dir := spec.ReplayDir
	if dir == "" {
		dir = os.TempDir()
	}
	os.MkdirAll(dir, 0o755)
	name := fmt.Sprintf("%s-%s-r%d-%d.json", spec.Prop, strings.TrimPrefix(spec.Entry, "vrfH_"), spec.RunID, seq)
	if spec.KnownMode != "" && spec.KnownMode != "exclude" {
		name = "kf-" + name
	}
	path := filepath.Join(dir, name)
	doc := map[string]interface{}{"entry": spec.Entry, "kind": r.Kind, "id": r.ID, "params": spec.Params, "model": model, "what": what, "property": spec.Prop}
	b, _ := json.MarshalIndent(doc, "", " ")
	os.WriteFile(path, b, 0o644)
	return path
}

type nativeResult struct {
	Entry        string          `json:"entry"`
	Finished     bool            `json:"finished"`
	Panicked     bool            `json:"panicked"`
	PanicMsg     string          `json:"panic_msg"`
	AssumeFailed bool            `json:"assume_failed"`
	AssumeMsg    string          `json:"assume_msg"`
	Timeout      bool            `json:"timeout"`
	Failures     []string        `json:"failures"`
	Covered      map[string]bool `json:"covered"`
	Race         bool            `json:"race"`
	Crashed      bool            `json:"crashed"` // process died (stack overflow / fatal error)
	CrashMsg     string          `json:"crash_msg"`
}

func (n *nativeResult) summary() string {
	switch {
	case n.Race:
		return "native (race detector): DATA RACE reported while two goroutines ran the queries"
	case n.Crashed:
		return "native: process crashed: " + n.CrashMsg
	case n.Timeout:
		return "native: did not terminate within the wall-clock limit"
	case n.AssumeFailed:
		return "native: assumption not satisfied by the model (" + n.AssumeMsg + ")"
	case n.Panicked:
		return "native: panic: " + n.PanicMsg
	}
	return fmt.Sprintf("native: finished, failed asserts %v", n.Failures)
}

// nativeReplay runs the replay test binary (waiting for it to be built) on one replay file.
func nativeReplay(spec RunSpec, path string) (*nativeResult, error) {
	bin := spec.ReplayBin
	if bin == "" {
		return nil, fmt.Errorf("no replay binary configured")
	}
	deadline := time.Now().Add(5 * time.Minute)
	for {
		if _, err := os.Stat(bin + ".ready"); err == nil {
			break
		}
		if _, err := os.Stat(bin + ".failed"); err == nil {
			b, _ := os.ReadFile(bin + ".failed")
			return nil, fmt.Errorf("replay binary build failed: %s", b)
		}
		if time.Now().After(deadline) {
			return nil, fmt.Errorf("replay binary not built in time")
		}
		time.Sleep(200 * time.Millisecond)
	}
	return runReplayBin(bin, path)
}

var raceOnce sync.Once
var raceErr error

// raceReplay runs the replay under the race detector (binary built on first use, next to the normal one).
func raceReplay(spec RunSpec, path string) (*nativeResult, error) {
	bin := spec.ReplayBin + ".race"
	raceOnce.Do(func() {
		if _, err := os.Stat(bin + ".ready"); err == nil {
			return
		}
		raceErr = buildReplayBinOpts(bin, true)
	})
	if raceErr != nil {
		return nil, raceErr
	}
	return runReplayBin(bin, path)
}

func runReplayBin(bin, path string) (*nativeResult, error) {
	cmd := exec.Command("timeout", "-k", "5", "120", bin, "-test.run", "^TestVrfReplay$", "-test.count=1", "-test.timeout=100s")
	cmd.Env = append(os.Environ(), "VRF_REPLAY="+path)
	cmd.Dir = RepoDir
	var buf bytes.Buffer
	cmd.Stdout, cmd.Stderr = &buf, &buf
	cmd.Run()
	outS := buf.String()
	for _, line := range strings.Split(outS, "\n") {
		if strings.HasPrefix(line, "VRF-RESULT ") {
			var n nativeResult
			if err := json.Unmarshal([]byte(line[len("VRF-RESULT "):]), &n); err != nil {
				return nil, err
			}
			n.Race = strings.Contains(outS, "DATA RACE")
			return &n, nil
		}
	}
	if strings.Contains(outS, "DATA RACE") {
		return &nativeResult{Race: true}, nil
	}
	n := &nativeResult{Crashed: true}
	switch {
	case strings.Contains(outS, "stack overflow") || strings.Contains(outS, "stack exceeds"):
		n.CrashMsg = "stack overflow (goroutine stack exceeds limit)"
	case strings.Contains(outS, "fatal error"):
		i := strings.Index(outS, "fatal error")
		n.CrashMsg = firstLine(outS[i:])
	default:
		if len(outS) > 600 {
			outS = outS[:600]
		}
		return nil, fmt.Errorf("no VRF-RESULT line in replay output: %s", outS)
	}
	return n, nil
}

func firstLine(s string) string {
	if i := strings.IndexByte(s, '\n'); i >= 0 {
		return s[:i]
	}
	return s
}

// buildReplayBin compiles the native replay test binary from /repo's working tree + harness overlay.
func buildReplayBin(bin string) error { return buildReplayBinOpts(bin, false) }

func buildReplayBinOpts(bin string, race bool) error {
	dir := filepath.Dir(bin)
	ov := map[string]map[string]string{"Replace": {}}
	for _, f := range harnessFiles() {
		ov["Replace"][filepath.Join(RepoDir, "zz_vrf_"+filepath.Base(f))] = f
	}
	ov["Replace"][filepath.Join(RepoDir, "zz_vrf_replay_test.go")] = filepath.Join(HarnessDir, "replay_test.go.txt")
	b, _ := json.Marshal(ov)
	ovPath := filepath.Join(dir, filepath.Base(bin)+".overlay.json")
	if err := os.WriteFile(ovPath, b, 0o644); err != nil {
		return err
	}
	args := []string{"test", "-c", "-mod=readonly", "-vet=off", "-overlay", ovPath, "-o", bin}
	if race {
		args = append(args, "-race")
	}
	args = append(args, ".")
	cmd := exec.Command("go", args...)
	cmd.Dir = RepoDir
	cmd.Env = append(os.Environ(), "GOFLAGS=", "GOPROXY=off", "GOSUMDB=off", "GOTOOLCHAIN=local")
	out, err := cmd.CombinedOutput()
	if err != nil {
		os.WriteFile(bin+".failed", out, 0o644)
		return fmt.Errorf("%v: %s", err, out)
	}
	return os.WriteFile(bin+".ready", []byte("ok"), 0o644)
}
