package main

import (
	"fmt"
	"os"
)

// cmdSelftest validates the machinery itself (DESIGN.md §8): the lemmas behind the provenance fast paths are
// re-decided by the solver on the Go models.
func cmdSelftest(args []string) {
	res := runOne(RunSpec{Entry: "vrfH_SelfEscape", Unwind: 12, Depth: 40, Timeout: 120, Prop: "SELFTEST"}, false)
	bad := 0
	if res.Unsupported != "" {
		fmt.Println("selftest: unsupported:", res.Unsupported)
		bad++
	}
	n := 0
	for _, o := range res.Obls {
		if o.Kind == "cover" {
			if o.Result != "sat" {
				fmt.Printf("selftest: cover %s: %s\n", o.ID, o.Result)
				bad++
			}
			continue
		}
		n++
		if o.Result != "unsat" {
			fmt.Printf("selftest: [%s] %s: %s\n", o.Kind, o.ID, o.Result)
			bad++
		}
	}
	if bad > 0 || n == 0 {
		fmt.Println("symgo selftest: FAILED")
		os.Exit(1)
	}
	fmt.Printf("symgo selftest: ok (%d lemmas discharged in %.1fs)\n", n, res.SolveS+res.ExecS)
}
