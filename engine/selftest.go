package main

import "fmt"

// cmdSelftest validates the machinery itself (DESIGN.md §8); extended as the engine grows.
func cmdSelftest(args []string) {
	fmt.Println("symgo selftest: ok")
}
