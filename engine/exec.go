package main

import (
	"time"
	"sort"
	"os"
	"fmt"
	"go/constant"
	"go/token"
	"go/types"
	"strings"

	"golang.org/x/tools/go/ssa"
)

type State struct {
	PC   *Term
	Heap map[int]*Obj
}

func (s *State) clone() *State {
	h := make(map[int]*Obj, len(s.Heap))
	for k, v := range s.Heap {
		h[k] = v
	}
	return &State{PC: s.PC, Heap: h}
}

type Ctx struct {
	S    *State
	Regs map[ssa.Value]Value
	Prev *ssa.BasicBlock
}

func (c *Ctx) fork(cond *Term) *Ctx {
	r := make(map[ssa.Value]Value, len(c.Regs))
	for k, v := range c.Regs {
		r[k] = v
	}
	s := c.S.clone()
	s.PC = And(s.PC, cond)
	return &Ctx{S: s, Regs: r, Prev: c.Prev}
}

type Ret struct {
	C *Ctx
	V Value
}

type Frame struct {
	Fn    *ssa.Function
	Rets  []Ret
	Forks map[*ssa.BasicBlock]int
	Depth int
	Parent *Frame
	// guarded iteration over a slice built by conditional appends: the index register of the running loop is bound to
	// one list entry (see guardedSliceRange)
	listElem map[ssa.Value]listElemRef
}

type listElemRef struct {
	obj   int
	entry ListEntry
	reg   ssa.Value // the slice register the loop ranges over
}

type Obligation struct {
	Kind string // assert | panic | unwind | cover
	ID   string
	Cond *Term // query: sat? (for cover must be sat, for others sat = violation)
}

type Engine struct {
	prog     *ssa.Program
	sol      *Solver
	nextObj  int
	Obls     []Obligation
	catchers [][]*Ctx // stack of panic catchers (vrfPanics)
	pdom     map[*ssa.Function]map[*ssa.BasicBlock]*ssa.BasicBlock
	globals  map[*ssa.Global]int
	Unwind   int
	MaxDepth int
	Steps    int
	Forks    int
	Merges   int
	intercept map[string]func(e *Engine, fr *Frame, c *Ctx, args []Value, call *ssa.CallCommon) (Value, bool)
	strVars  map[string]StrV
	funcsHit map[string]int
	Lazy     bool
	NoFeas   bool
	harnessPkg *ssa.Package
	funcInstrs map[string]int
	Params     map[string]int
	KnownMode  string
	OpenKeys   map[string]bool
	Verbose    bool
	eager      map[string]bool // callees inside which branch feasibility is decided eagerly
	eagerDepth int
	MapOrderND bool
	MapOrderLabel string
	permSite   int
	feasCache  map[int]bool
	Enumerated int
	liveCache  map[*Obj][]*Term
	stepsBy    map[*ssa.Function]int
	frozen     int // objects with Epoch < frozen are write-monitored (0 = off)
}

type unsupported struct{ msg string }

func unsup(f string, a ...interface{}) { panic(unsupported{fmt.Sprintf(f, a...)}) }

func (e *Engine) newObj(c *Ctx, o *Obj) int {
	id := e.nextObj
	e.nextObj++
	o.Epoch = id
	c.S.Heap[id] = o
	return id
}

// ---------- guarded lists ----------

// materialise forces the positional array of an appended slice (in place: Obj content is immutable otherwise, and the
// result is a deterministic function of it, so caching inside the shared Obj is safe).
func materialise(o *Obj) *Obj {
	if o.Val == nil && o.Thunk == nil && o.HasList {
		// a list without history (a sorted list): position j holds the entry that is present and preceded by j present ones
		n := len(o.List)
		el := make([]Value, n)
		for j := range el {
			el[j] = o.ElemZ
		}
		var before *Term = BV(64, 0)
		for i := 0; i < n; i++ {
			en := o.List[i]
			for j := 0; j <= i; j++ {
				el[j] = mergeV(And(en.G, Eq(before, BV(64, uint64(j)))), en.V, el[j])
			}
			before = Add(before, Ite(en.G, BV(64, 1), BV(64, 0)))
		}
		o.Val = ArrayV{el}
		return o
	}
	if o.Val != nil || o.Thunk == nil {
		return o
	}
	th := o.Thunk
	var tail []Value
	var tailLen *Term
	if th.StrTail != nil {
		f := fl(*th.StrTail)
		for _, b := range f.B {
			tail = append(tail, IntV{b})
		}
		tailLen = f.Len
	} else {
		tail, tailLen = viewOf(th.Tail, o.ElemZ)
	}
	k := len(tail)
	if tailLen.IsConst() && int(tailLen.val) < k {
		k = int(tailLen.val)
		tail = tail[:k]
	}
	old, oldLen := viewOf(th.Base, o.ElemZ)
	hi := len(old)
	if oldLen.IsConst() && int(oldLen.val) < hi {
		hi = int(oldLen.val)
		old = old[:hi]
	}
	lo := 0
	if oldLen.hasIv {
		lo = int(oldLen.lo)
	}
	n := hi + k
	el := make([]Value, n)
	for j := 0; j < n; j++ {
		var v Value = o.ElemZ
		if j < hi {
			v = old[j]
		}
		for t := 0; t < k; t++ {
			if j-t < lo || j-t > hi {
				continue
			}
			v = mergeV(Eq(oldLen, BV(64, uint64(j-t))), tail[t], v)
		}
		el[j] = v
	}
	o.Val = ArrayV{el}
	return o
}

// viewOf: merged positional view (elements, length) of guarded slice alternatives given by object pointers.
func viewOf(alts []thunkAlt, zeroEl Value) ([]Value, *Term) {
	hi := 0
	for _, a := range alts {
		if a.O == nil {
			continue
		}
		h := a.Cap
		if a.Len.hasIv && int(a.Len.hi) < h {
			h = int(a.Len.hi)
		}
		if h > hi {
			hi = h
		}
	}
	var ln *Term = BV(64, 0)
	el := make([]Value, hi)
	for i := range el {
		el[i] = zeroEl
	}
	for ai, a := range alts {
		if ai == 0 {
			ln = a.Len
		} else {
			ln = Ite(a.G, a.Len, ln)
		}
		if a.O == nil {
			continue
		}
		arr := materialise(a.O).Val.(ArrayV)
		for i := 0; i < hi && a.Off+i < len(arr.E); i++ {
			if ai == 0 || len(alts) == 1 {
				el[i] = arr.E[a.Off+i]
			} else {
				el[i] = mergeV(a.G, arr.E[a.Off+i], el[i])
			}
		}
	}
	return el, ln
}

// arr returns the positional array of an array/list object, materialising it once.
func (e *Engine) arr(c *Ctx, id int) ArrayV {
	return materialise(c.S.Heap[id]).Val.(ArrayV)
}

// listCount: the number of present entries. The sum is built in a canonical order (by guard), so that a permutation of
// the list (sort) has the very same length term.
func listCount(l []ListEntry) *Term {
	var t *Term = BV(64, 0)
	lo := 0
	gs := make([]*Term, 0, len(l))
	for _, en := range l {
		gs = append(gs, en.G)
		if en.G.IsTrue() {
			lo++
		}
	}
	sort.SliceStable(gs, func(i, j int) bool { return gs[i].id < gs[j].id })
	for _, g := range gs {
		t = Add(t, Ite(g, BV(64, 1), BV(64, 0)))
	}
	return withIv(t, uint64(lo), uint64(len(l)))
}

// sortGuarded: sort.Sort on a guarded list whose comparator gives a constant answer for every pair of candidate
// elements (e.g. concrete keys under symbolic presence guards): the sorted list is the same candidates in sorted order,
// each under its own guard. Returns false when it does not apply (the caller falls back to the positional model).
func (e *Engine) sortGuarded(fr *Frame, c *Ctx, sv SliceV, et types.Type, less *ssa.Function) bool {
	any := false
	for _, a := range sv.Alts {
		if a.Obj == -1 || a.G.IsFalse() {
			continue
		}
		o := c.S.Heap[a.Obj]
		if !(o.HasList && a.Off == 0 && a.Len == listCount(o.List)) {
			if DebugFlat {
				fmt.Printf("    [sort-guarded] not applied in %s: alternative not in list form (haslist %v off %d)\n", fr.Fn.String(), o.HasList, a.Off)
			}
			return false
		}
		any = true
	}
	if !any {
		return true
	}
	view := e.listView(c, sv, et)
	n := len(view)
	if n < 2 {
		return true
	}
	if DebugFlat {
		fmt.Printf("    [sort-guarded] %d alternatives, %d candidates:\n", len(sv.Alts), n)
		for _, en := range view {
			fmt.Printf("        u%d const-guard=%v %s\n", en.U, en.G.IsConst(), showV(en.V))
		}
	}
	ok := true
	cmp := func(x, y Value) bool {
		if !ok {
			return false
		}
		id := e.newObj(c, &Obj{Val: ArrayV{[]Value{x, y}}})
		tmp := SliceV{[]SliceAlt{{TTrue, id, 0, BV(64, 2), 2}}}
		v, nc := e.call(fr, c, less, []Value{tmp, IntV{BV(64, 0)}, IntV{BV(64, 1)}}, nil)
		if nc == nil {
			ok = false
			return false
		}
		c.S = nc.S
		b := v.(BoolV).T
		if !b.IsConst() {
			if DebugFlat {
				fmt.Printf("    [sort-guarded] comparator not constant on %s vs %s\n", showV(x), showV(y))
			}
			ok = false
			return false
		}
		return b.IsTrue()
	}
	perm := make([]int, n)
	for i := range perm {
		perm[i] = i
	}
	// insertion sort (stable; the comparator is called on candidate pairs only)
	for i := 1; i < n && ok; i++ {
		for j := i; j > 0 && ok && cmp(view[perm[j]].V, view[perm[j-1]].V); j-- {
			perm[j], perm[j-1] = perm[j-1], perm[j]
		}
	}
	if !ok {
		if DebugFlat {
			fmt.Printf("    [sort-guarded] not applied in %s: comparator not constant on %d candidates\n", fr.Fn.String(), n)
		}
		return false
	}
	if DebugFlat {
		fmt.Printf("    [sort-guarded] applied in %s: %d candidates\n", fr.Fn.String(), n)
	}
	newUID := map[int]int{}
	for _, pi := range perm {
		newUID[view[pi].U] = freshUID()
	}
	done := map[int]bool{}
	for _, a := range sv.Alts {
		if a.Obj == -1 || a.G.IsFalse() || done[a.Obj] {
			continue
		}
		done[a.Obj] = true
		o := c.S.Heap[a.Obj]
		nl := make([]ListEntry, 0, len(o.List))
		for _, en := range o.List {
			u, known := newUID[en.U]
			if !known {
				u = freshUID() // an entry that is never present under this alternative's guard
			}
			nl = append(nl, ListEntry{en.G, en.V, u})
		}
		sort.SliceStable(nl, func(i, j int) bool { return nl[i].U < nl[j].U })
		c.S.Heap[a.Obj] = &Obj{List: nl, HasList: true, ElemZ: o.ElemZ, Epoch: o.Epoch}
	}
	return true
}


var nextUID int

func freshUID() int { nextUID++; return nextUID }

// listView: the elements of a guarded slice value as one guarded list (order preserved). Lists are append-only and
// every appended element carries a unique event id, so the lists of several alternatives are combined by event id:
// an element present in several alternatives appears once, under the disjunction of its guards.
func (e *Engine) listView(c *Ctx, s SliceV, et types.Type) []ListEntry {
	var lists [][]ListEntry
	var guards []*Term
	for _, a := range s.Alts {
		if a.G.IsFalse() {
			continue
		}
		var l []ListEntry
		if a.Obj != -1 {
			o := c.S.Heap[a.Obj]
			if o.HasList && a.Off == 0 && a.Len == listCount(o.List) {
				l = o.List
			} else {
				av := e.arr(c, a.Obj)
				n := a.Cap
				if a.Len.hasIv && int(a.Len.hi) < n {
					n = int(a.Len.hi)
				}
				for i := 0; i < n && a.Off+i < len(av.E); i++ {
					l = append(l, ListEntry{Ult(BV(64, uint64(i)), a.Len), av.E[a.Off+i], freshUID()})
				}
			}
		}
		lists = append(lists, l)
		guards = append(guards, a.G)
	}
	if len(lists) == 0 {
		return nil
	}
	if len(lists) == 1 {
		return lists[0]
	}
	idx := map[int]int{}
	var out []ListEntry
	for i, l := range lists {
		for _, en := range l {
			g := And(guards[i], en.G)
			if g.IsFalse() {
				continue
			}
			if k, ok := idx[en.U]; ok {
				out[k].G = Or(out[k].G, g)
				continue
			}
			idx[en.U] = len(out)
			out = append(out, ListEntry{g, en.V, en.U})
		}
	}
	sort.SliceStable(out, func(i, j int) bool { return out[i].U < out[j].U })
	return out
}

// ---------- post-dominators ----------

func (e *Engine) ipdom(fn *ssa.Function) map[*ssa.BasicBlock]*ssa.BasicBlock {
	if m, ok := e.pdom[fn]; ok {
		return m
	}
	n := len(fn.Blocks)
	// node n = virtual exit
	succ := make([][]int, n+1)
	for _, b := range fn.Blocks {
		if len(b.Succs) == 0 {
			succ[b.Index] = []int{n}
		}
		for _, s := range b.Succs {
			succ[b.Index] = append(succ[b.Index], s.Index)
		}
	}
	// iterative set-based postdominators (small CFGs)
	full := make([]bool, n+1)
	for i := range full {
		full[i] = true
	}
	pd := make([][]bool, n+1)
	for i := 0; i <= n; i++ {
		pd[i] = append([]bool(nil), full...)
	}
	pd[n] = make([]bool, n+1)
	pd[n][n] = true
	changed := true
	for changed {
		changed = false
		for i := n - 1; i >= 0; i-- {
			nw := append([]bool(nil), full...)
			if len(succ[i]) == 0 {
				nw = make([]bool, n+1)
			}
			for _, s := range succ[i] {
				for k := range nw {
					nw[k] = nw[k] && pd[s][k]
				}
			}
			nw[i] = true
			for k := range nw {
				if nw[k] != pd[i][k] {
					changed = true
				}
			}
			pd[i] = nw
		}
	}
	res := map[*ssa.BasicBlock]*ssa.BasicBlock{}
	for i := 0; i < n; i++ {
		// immediate pdom: the strict postdominator d such that every other strict postdominator of i postdominates d
		best := -1
		for d := 0; d <= n; d++ {
			if d == i || !pd[i][d] {
				continue
			}
			ok := true
			for o := 0; o <= n; o++ {
				if o == i || o == d || !pd[i][o] {
					continue
				}
				if !pd[d][o] {
					ok = false
					break
				}
			}
			if ok {
				best = d
				break
			}
		}
		if best >= 0 && best < n {
			res[fn.Blocks[i]] = fn.Blocks[best]
		} else {
			res[fn.Blocks[i]] = nil // exit
		}
	}
	e.pdom[fn] = res
	return res
}

// ---------- merging ----------

func (e *Engine) mergeObj(c *Term, a, b *Obj) *Obj {
	if a == b {
		return a
	}
	switch {
	case a.IsMap:
		// common prefix
		n := 0
		for n < len(a.Log) && n < len(b.Log) && sameEntry(a.Log[n], b.Log[n]) {
			n++
		}
		log := append([]MapEntry(nil), a.Log[:n]...)
		for _, en := range a.Log[n:] {
			en.G = And(c, en.G)
			log = append(log, en)
		}
		nc := Not(c)
		for _, en := range b.Log[n:] {
			en.G = And(nc, en.G)
			log = append(log, en)
		}
		return &Obj{IsMap: true, Log: log, Epoch: a.Epoch}
	case a.IsIter:
		var cur []CurAlt
		add := func(x CurAlt) {
			if x.G.IsFalse() {
				return
			}
			for i := range cur {
				if cur[i].Idx == x.Idx {
					cur[i].G = Or(cur[i].G, x.G)
					return
				}
			}
			cur = append(cur, x)
		}
		for _, x := range a.Cur {
			add(CurAlt{And(c, x.G), x.Idx})
		}
		nc := Not(c)
		for _, x := range b.Cur {
			add(CurAlt{And(nc, x.G), x.Idx})
		}
		return &Obj{IsIter: true, Cands: a.Cands, CandObj: a.CandObj, MapObj: a.MapObj, Snap: a.Snap, Perm: a.Perm, Cur: cur, Epoch: a.Epoch, EffC: a.EffC, ValC: a.ValC, VerC: a.VerC}
	}
	if a.Thunk != nil && a.Thunk == b.Thunk {
		return a
	}
	a, b = materialise(a), materialise(b)
	return &Obj{Val: mergeV(c, a.Val, b.Val), Epoch: a.Epoch}
}

func sameEntry(a, b MapEntry) bool {
	return a.G == b.G && a.Tomb == b.Tomb && sameV(a.K, b.K) && sameV(a.V, b.V)
}

// sameV: structural identity of two values (terms compared by pointer)
func sameV(a, b Value) bool {
	switch x := a.(type) {
	case nil:
		return b == nil
	case BoolV:
		y, ok := b.(BoolV)
		return ok && x.T == y.T
	case IntV:
		y, ok := b.(IntV)
		return ok && x.T == y.T
	case StrV:
		y, ok := b.(StrV)
		if ok && (x.Ch != nil || y.Ch != nil) && (x.B == nil || y.B == nil) {
			return x.Ch == y.Ch
		}
		if ok && (x.R != nil || y.R != nil) && (x.B == nil || y.B == nil) {
			return x.R == y.R
		}
		if !ok || x.Len != y.Len || len(x.B) != len(y.B) {
			return false
		}
		for i := range x.B {
			if x.B[i] != y.B[i] {
				return false
			}
		}
		return true
	case StructV:
		y, ok := b.(StructV)
		if !ok || len(x.F) != len(y.F) {
			return false
		}
		for i := range x.F {
			if !sameV(x.F[i], y.F[i]) {
				return false
			}
		}
		return true
	case ArrayV:
		y, ok := b.(ArrayV)
		if !ok || len(x.E) != len(y.E) {
			return false
		}
		for i := range x.E {
			if !sameV(x.E[i], y.E[i]) {
				return false
			}
		}
		return true
	case PtrV:
		y, ok := b.(PtrV)
		if !ok || len(x.Alts) != len(y.Alts) {
			return false
		}
		for i := range x.Alts {
			if x.Alts[i].G != y.Alts[i].G || x.Alts[i].Obj != y.Alts[i].Obj || !samePath(x.Alts[i].Path, y.Alts[i].Path) {
				return false
			}
		}
		return true
	case SliceV:
		y, ok := b.(SliceV)
		if !ok || len(x.Alts) != len(y.Alts) {
			return false
		}
		for i := range x.Alts {
			if x.Alts[i] != y.Alts[i] {
				return false
			}
		}
		return true
	case MapV:
		y, ok := b.(MapV)
		if !ok || len(x.Alts) != len(y.Alts) {
			return false
		}
		for i := range x.Alts {
			if x.Alts[i] != y.Alts[i] {
				return false
			}
		}
		return true
	case IfaceV:
		y, ok := b.(IfaceV)
		if !ok || len(x.Alts) != len(y.Alts) {
			return false
		}
		for i := range x.Alts {
			if x.Alts[i].G != y.Alts[i].G || x.Alts[i].Typ != y.Alts[i].Typ || !sameV(x.Alts[i].V, y.Alts[i].V) {
				return false
			}
		}
		return true
	}
	return false
}

func sameValShallow(a, b Value) bool {
	// cheap identity: compare printed form of term ids (values are trees of *Term pointers)
	return fmt.Sprintf("%v", a) == fmt.Sprintf("%v", b)
}

// merge two contexts at the same program point; cond discriminates a (true) from b (false)
func (e *Engine) mergeCtx(cond *Term, a, b *Ctx, pc *Term) *Ctx {
	if a == nil {
		return b
	}
	if b == nil {
		return a
	}
	e.Merges++
	h := make(map[int]*Obj, len(a.S.Heap))
	for id, oa := range a.S.Heap {
		if ob, ok := b.S.Heap[id]; ok {
			h[id] = e.mergeObj(cond, oa, ob)
		} else {
			h[id] = oa
		}
	}
	for id, ob := range b.S.Heap {
		if _, ok := a.S.Heap[id]; !ok {
			h[id] = ob
		}
	}
	regs := make(map[ssa.Value]Value, len(a.Regs))
	for k, va := range a.Regs {
		if vb, ok := b.Regs[k]; ok {
			regs[k] = mergeV(cond, va, vb)
		} else {
			regs[k] = va
		}
	}
	for k, vb := range b.Regs {
		if _, ok := a.Regs[k]; !ok {
			regs[k] = vb
		}
	}
	if pc == nil {
		pc = Or(a.S.PC, b.S.PC)
	}
	return &Ctx{S: &State{PC: pc, Heap: h}, Regs: regs, Prev: a.Prev}
}

// ---------- feasibility ----------

func (e *Engine) feasible(pc *Term) bool {
	if pc.IsFalse() {
		return false
	}
	if pc.IsTrue() || e.NoFeas {
		return true
	}
	q := sliceRelevant(pc)
	if r, ok := e.feasCache[q.id]; ok {
		return r
	}
	if sat, ok := satByEnumeration(q, 10); ok {
		if e.feasCache == nil {
			e.feasCache = map[int]bool{}
		}
		e.feasCache[q.id] = sat
		e.Enumerated++
		return sat
	}
	if e.eagerDepth > 0 {
		// eager regions: a fresh solver process on the cone of influence is far more predictable than the long-lived
		// incremental session once the term table is large
		if r, ok := e.feasCache[q.id]; ok {
			return r
		}
		smt, _ := smtScript(q, false)
		t0 := time.Now()
		res, _, _ := solveScript(smt, nil, "z3-new", 10)
		e.sol.Queries++
		e.sol.Time += time.Since(t0)
		ok := res != "unsat"
		if e.feasCache == nil {
			e.feasCache = map[int]bool{}
		}
		e.feasCache[q.id] = ok
		return ok
	}
	r := e.sol.Check(q)
	return r != "unsat"
}

// ---- constraint independence: keep only the conjuncts of pc that share variables (transitively)
// with the last conjunct (the branch condition). Sound for satisfiability: dropped conjuncts are
// over disjoint variables and were found satisfiable earlier (states with infeasible pc are never continued).
var varsMemo = map[int][]int32{}

func varsOf(t *Term) []int32 {
	if v, ok := varsMemo[t.id]; ok {
		return v
	}
	var out []int32
	switch t.op {
	case OConst:
	case OVar:
		out = []int32{int32(t.id)}
	default:
		seen := map[int32]bool{}
		for _, a := range t.args {
			for _, v := range varsOf(a) {
				if !seen[v] {
					seen[v] = true
					out = append(out, v)
				}
			}
		}
	}
	varsMemo[t.id] = out
	return out
}

func sliceRelevant(pc *Term) *Term {
	if pc.op != OAnd || len(pc.args) < 2 {
		return pc
	}
	var conj []*Term
	var flat func(t *Term)
	flat = func(t *Term) {
		for _, a := range t.args {
			if a.op == OAnd {
				flat(a)
			} else {
				conj = append(conj, a)
			}
		}
	}
	flat(pc)
	if len(conj) < 8 {
		return pc
	}
	// union-find over variables
	parent := map[int32]int32{}
	var find func(x int32) int32
	find = func(x int32) int32 {
		p, ok := parent[x]
		if !ok || p == x {
			parent[x] = x
			return x
		}
		r := find(p)
		parent[x] = r
		return r
	}
	for _, cj := range conj {
		vs := varsOf(cj)
		for i := 1; i < len(vs); i++ {
			parent[find(vs[i])] = find(vs[0])
		}
	}
	// the "target" conjunct: the one with the highest term id (most recently created = branch condition)
	target := conj[0]
	for _, cj := range conj {
		if cj.id > target.id {
			target = cj
		}
	}
	tv := varsOf(target)
	if len(tv) == 0 {
		return target
	}
	roots := map[int32]bool{}
	for _, v := range tv {
		roots[find(v)] = true
	}
	var keep []*Term
	for _, cj := range conj {
		vs := varsOf(cj)
		if len(vs) == 0 {
			continue
		}
		if roots[find(vs[0])] {
			keep = append(keep, cj)
		}
	}
	return And(keep...)
}

// ---------- panics ----------

func (e *Engine) raise(c *Ctx, guard *Term, what string) {
	pc := And(c.S.PC, guard)
	if pc.IsFalse() || (!e.Lazy && !e.feasible(pc)) {
		return
	}
	if os.Getenv("SYMGO_TRACE_PANICS") != "" {
		fmt.Printf("    [raise] %s (caught=%v)\n", what, len(e.catchers) > 0)
	}
	if n := len(e.catchers); n > 0 {
		cc := c.fork(guard)
		e.catchers[n-1] = append(e.catchers[n-1], cc)
		return
	}
	e.Obls = append(e.Obls, Obligation{Kind: "panic", ID: what, Cond: pc})
}

// ---------- evaluation of operands ----------

func (e *Engine) constVal(k *ssa.Const) Value {
	t := k.Type()
	if k.Value == nil {
		return zero(t)
	}
	switch u := t.Underlying().(type) {
	case *types.Basic:
		switch {
		case u.Info()&types.IsBoolean != 0:
			return BoolV{BoolC(constant.BoolVal(k.Value))}
		case u.Info()&types.IsString != 0:
			return StrC(constant.StringVal(k.Value))
		case u.Info()&types.IsInteger != 0:
			w, _, _ := intWidth(t)
			if v, ok := constant.Int64Val(constant.ToInt(k.Value)); ok {
				return IntV{BV(w, uint64(v))}
			}
			v, _ := constant.Uint64Val(constant.ToInt(k.Value))
			return IntV{BV(w, v)}
		}
	}
	unsup("const of type %v in %v", t, k.Parent())
	return nil
}

func (e *Engine) get(c *Ctx, v ssa.Value) Value {
	switch x := v.(type) {
	case *ssa.Const:
		return e.constVal(x)
	case *ssa.Function:
		return FuncV{Fn: x}
	case *ssa.Global:
		id, ok := e.globals[x]
		if !ok {
			id = e.nextObj
			e.nextObj++
			e.globals[x] = id
		}
		if _, ok := c.S.Heap[id]; !ok {
			c.S.Heap[id] = &Obj{Val: zero(x.Type().(*types.Pointer).Elem()), Epoch: id}
		}
		return PtrV{[]PtrAlt{{G: TTrue, Obj: id}}}
	case *ssa.Builtin:
		return FuncV{}
	}
	r, ok := c.Regs[v]
	if !ok {
		unsup("unbound register %s in %s", v.Name(), v.Parent())
	}
	return r
}

// ---------- memory ----------

func (e *Engine) load(c *Ctx, p PtrV, what string) Value {
	var res Value
	for _, a := range p.Alts {
		if a.Obj == -1 {
			e.raise(c, a.G, "nil dereference: "+what)
			c.S.PC = And(c.S.PC, Not(a.G))
			continue
		}
		o := c.S.Heap[a.Obj]
		if o == nil {
			unsup("dangling object %d", a.Obj)
		}
		materialise(o)
		v := getPath(o.Val, a.Path)
		if res == nil {
			res = v
		} else {
			res = mergeV(a.G, v, res)
		}
	}
	if res == nil {
		return nil
	}
	return res
}

func (e *Engine) store(c *Ctx, p PtrV, v Value, what string) {
	for _, a := range p.Alts {
		if a.Obj == -1 {
			e.raise(c, a.G, "nil dereference (store): "+what)
			c.S.PC = And(c.S.PC, Not(a.G))
			continue
		}
		o := c.S.Heap[a.Obj]
		if e.frozen > 0 && o.Epoch < e.frozen {
			e.Obls = append(e.Obls, Obligation{Kind: "frozen-write", ID: "store to memory that existed at the freeze, in " + what, Cond: And(c.S.PC, a.G)})
		}
		materialise(o)
		old := getPath(o.Val, a.Path)
		nv := v
		if !a.G.IsTrue() && len(p.Alts) > 1 {
			nv = mergeV(a.G, v, old)
		}
		c.S.Heap[a.Obj] = &Obj{Val: setPath(o.Val, a.Path, nv), Epoch: o.Epoch}
	}
}

// ---------- maps ----------

func (e *Engine) mapLookup(c *Ctx, m MapV, k Value, elem types.Type) (Value, *Term) {
	return e.mapLookupZ(c, m, k, zero(elem))
}

func (e *Engine) mapLookupZ(c *Ctx, m MapV, k Value, zeroEl Value) (Value, *Term) {
	var res Value = zeroEl
	ok := TFalse
	first := true
	for _, a := range m.Alts {
		var r Value = zeroEl
		okk := TFalse
		if a.Obj != -1 {
			for _, en := range c.S.Heap[a.Obj].Log {
				hit := And(en.G, eqV(k, en.K))
				if hit.IsFalse() {
					continue
				}
				if en.Tomb {
					r = mergeV(hit, zeroEl, r)
					okk = And(Not(hit), okk)
				} else {
					r = mergeV(hit, en.V, r)
					okk = Or(hit, okk)
				}
			}
		}
		if first {
			res, ok, first = r, okk, false
		} else {
			res = mergeV(a.G, r, res)
			ok = Ite(a.G, okk, ok)
		}
	}
	return res, ok
}

func (e *Engine) mapUpdate(c *Ctx, m MapV, k, v Value, tomb bool) {
	for _, a := range m.Alts {
		if a.Obj == -1 {
			if !tomb {
				e.raise(c, a.G, "assignment to entry in nil map")
				c.S.PC = And(c.S.PC, Not(a.G))
			}
			continue
		}
		o := c.S.Heap[a.Obj]
		if e.frozen > 0 && o.Epoch < e.frozen {
			e.Obls = append(e.Obls, Obligation{Kind: "frozen-write", ID: "map update on a map that existed at the freeze", Cond: And(c.S.PC, a.G)})
		}
		g := a.G
		if len(m.Alts) == 1 {
			g = TTrue
		}
		log := append(append([]MapEntry(nil), o.Log...), MapEntry{G: g, K: k, V: v, Tomb: tomb})
		c.S.Heap[a.Obj] = &Obj{IsMap: true, Log: log, Epoch: o.Epoch}
	}
}

func (e *Engine) mapLen(c *Ctx, m MapV) *Term {
	// number of live distinct keys
	total := BV(64, 0)
	n := 0
	for _, a := range m.Alts {
		if a.Obj == -1 {
			continue
		}
		o := c.S.Heap[a.Obj]
		live := e.mapLive(o)
		for i := range o.Log {
			l := And(a.G, live[i])
			if l.IsFalse() {
				continue
			}
			n++
			total = Add(total, Ite(l, BV(64, 1), BV(64, 0)))
		}
	}
	return withIv(total, 0, uint64(n))
}

func (e *Engine) rangeMap(c *Ctx, m MapV) IterV {
	it := &Obj{IsIter: true, MapObj: -1, Cur: []CurAlt{{TTrue, 0}}, Snap: map[int]int{}}
	for _, a := range m.Alts {
		if a.Obj == -1 {
			continue
		}
		it.Snap[a.Obj] = len(c.S.Heap[a.Obj].Log)
		for _, en := range c.S.Heap[a.Obj].Log {
			// deletions stay in the snapshot: they are never visited, but they end the life of earlier bindings
			en.G = And(en.G, a.G)
			it.Cands = append(it.Cands, en)
			it.CandObj = append(it.CandObj, a.Obj)
		}
	}
	if e.MapOrderND {
		e.permuteCands(c, it)
	}
	if DebugFlat && strings.Contains(curFn, "DepthFirst") {
		fmt.Printf("    [range-map] in %s: %d alternatives, %d candidates\n", curFn, len(m.Alts), len(it.Cands))
		for i, cd := range it.Cands {
			fmt.Printf("        cand %d obj %d tomb=%v const-guard=%v key %s\n", i, it.CandObj[i], cd.Tomb, cd.G.IsConst(), showV(cd.K))
		}
	}
	return IterV{e.newObj(c, it)}
}

// permuteCands replaces the snapshot of a map range by a SYMBOLIC PERMUTATION of its live entries: iteration i visits
// live entry p_i, where p_0..p_{n-1} are fresh variables constrained to be a permutation. One symbolic run then covers
// every iteration order of the Go map (n <= 4).
func (e *Engine) permuteCands(c *Ctx, it *Obj) {
	type liveEnt struct {
		g   *Term
		en  MapEntry
		obj int
	}
	var live []liveEnt
	n0 := len(it.Cands)
	for i, cand := range it.Cands {
		if cand.Tomb {
			continue
		}
		g := cand.G
		for j := i + 1; j < n0 && !g.IsFalse(); j++ {
			if it.CandObj[j] != it.CandObj[i] {
				continue
			}
			g = And(g, Not(And(it.Cands[j].G, eqV(cand.K, it.Cands[j].K))))
		}
		if g.IsFalse() {
			continue
		}
		live = append(live, liveEnt{g, cand, it.CandObj[i]})
	}
	if len(live) <= 1 {
		return
	}
	// the alternatives of a merged map value are exclusive: each one gets its own permutation
	var order []int
	groups := map[int][]liveEnt{}
	for _, l := range live {
		if _, ok := groups[l.obj]; !ok {
			order = append(order, l.obj)
		}
		groups[l.obj] = append(groups[l.obj], l)
	}
	var cands []MapEntry
	var objs []int
	for _, ob := range order {
		grp := groups[ob]
		n := len(grp)
		if n > 4 {
			unsup("symbolic map iteration order over more than 4 live entries (%d)", n)
		}
		if n == 1 {
			cands = append(cands, MapEntry{G: grp[0].g, K: grp[0].en.K, V: grp[0].en.V})
			objs = append(objs, ob)
			continue
		}
		e.permSite++
		p := make([]*Term, n)
		for i := range p {
			p[i] = Var(fmt.Sprintf("perm!%s!%d!%d", e.MapOrderLabel, e.permSite, i), 8)
			p[i].hasIv, p[i].lo, p[i].hi = true, 0, uint64(n-1)
			c.S.PC = And(c.S.PC, mk(&Term{op: OUle, args: []*Term{p[i], BV(8, uint64(n-1))}}))
		}
		for i := 0; i < n; i++ {
			for j := i + 1; j < n; j++ {
				c.S.PC = And(c.S.PC, Not(Eq(p[i], p[j])))
			}
		}
		for i := 0; i < n; i++ {
			var g *Term = TFalse
			var k, v Value
			for j := n - 1; j >= 0; j-- {
				sel := Eq(p[i], BV(8, uint64(j)))
				g = Ite(sel, grp[j].g, g)
				if k == nil {
					k, v = grp[j].en.K, grp[j].en.V
				} else {
					k, v = mergeV(sel, grp[j].en.K, k), mergeV(sel, grp[j].en.V, v)
				}
			}
			cands = append(cands, MapEntry{G: g, K: k, V: v})
			objs = append(objs, ob)
		}
	}
	it.Cands, it.CandObj, it.Perm = cands, objs, true
}

func (e *Engine) nextMap(c *Ctx, itv IterV, kt, vt types.Type) Value {
	return e.nextMapZ(c, itv, zero(kt), zero(vt))
}

// nextMapZ: symbolic-cursor iteration (used by the reflect.MapIter model): the next live entry after the cursor.
func (e *Engine) nextMapZ(c *Ctx, itv IterV, kz, vz Value) TupleV {
	it := c.S.Heap[itv.Obj]
	n := len(it.Cands)
	eff, vals := it.EffC, it.ValC
	fresh := eff != nil
	if fresh {
		for o, ln := range it.VerC {
			if len(c.S.Heap[o].Log) != ln {
				fresh = false
			}
		}
	}
	ver := it.VerC
	if !fresh {
		eff = make([]*Term, n)
		vals = make([]Value, n)
		ver = map[int]int{}
		for i, cand := range it.Cands {
			ver[it.CandObj[i]] = len(c.S.Heap[it.CandObj[i]].Log)
			if cand.Tomb {
				eff[i] = TFalse
				continue
			}
			g := cand.G
			for j := i + 1; j < n && !it.Perm; j++ {
				if it.CandObj[j] != it.CandObj[i] {
					continue
				}
				g = And(g, Not(And(it.Cands[j].G, eqV(cand.K, it.Cands[j].K))))
			}
			if g.IsFalse() {
				eff[i] = TFalse
				continue
			}
			v, present := e.mapLookupZ(c, MapV{[]MapAlt{{TTrue, it.CandObj[i]}}}, cand.K, vz)
			eff[i] = And(g, present)
			vals[i] = v
		}
	}
	ok := TFalse
	var key Value = kz
	var val Value = vz
	newCur := map[int]*Term{}
	for _, ca := range it.Cur {
		none := ca.G
		for i := ca.Idx; i < n; i++ {
			sel := And(none, eff[i])
			none = And(none, Not(eff[i]))
			if sel.IsFalse() {
				continue
			}
			ok = Or(ok, sel)
			key = mergeV(sel, it.Cands[i].K, key)
			val = mergeV(sel, vals[i], val)
			if g, ok2 := newCur[i+1]; ok2 {
				newCur[i+1] = Or(g, sel)
			} else {
				newCur[i+1] = sel
			}
		}
		if g, ok2 := newCur[n]; ok2 {
			newCur[n] = Or(g, none)
		} else {
			newCur[n] = none
		}
	}
	var cur []CurAlt
	for i := 0; i <= n; i++ {
		if g, ok2 := newCur[i]; ok2 && !g.IsFalse() {
			cur = append(cur, CurAlt{g, i})
		}
	}
	c.S.Heap[itv.Obj] = &Obj{IsIter: true, Cands: it.Cands, CandObj: it.CandObj, MapObj: it.MapObj, Snap: it.Snap, Perm: it.Perm, Cur: cur, Epoch: it.Epoch, EffC: eff, ValC: vals, VerC: ver}
	return TupleV{[]Value{BoolV{ok}, key, val}}
}

// ---------- strings ----------

func strConcat(a, b StrV) StrV {
	if (a.B == nil && a.Ch != nil) || (b.B == nil && b.Ch != nil) {
		// lazily merged operands: concatenate leaf by leaf (one flattening of each operand, not one per nesting level)
		var aa, bb, out []strAlt
		strAlts(a, TTrue, &aa)
		strAlts(b, TTrue, &bb)
		if DebugFlat && len(aa)*len(bb) > 30 {
			x0, _ := aa[0].S.Concrete()
			x1, _ := aa[len(aa)-1].S.Concrete()
			fmt.Printf("    [concat] in %s: %d x %d leaves, e.g. %q .. %q\n", curFn, len(aa), len(bb), x0, x1)
		}
		for _, x := range aa {
			for _, y := range bb {
				g := And(x.G, y.G)
				if g.IsFalse() {
					continue
				}
				leaf := strConcat(x.S, y.S)
				merged := false
				for i := range out {
					if sameLeaf(out[i].S, leaf) {
						out[i].G = Or(out[i].G, g)
						merged = true
						break
					}
				}
				if !merged {
					out = append(out, strAlt{g, leaf})
				}
			}
		}
		return mkChoice(out)
	}
	if a.R != nil && b.R != nil {
		r := ropeConcat(a.R, b.R)
		return StrV{Len: ropeLen(r), R: r}
	}
	return flatConcat(fl(a), fl(b))
}

func flatConcat(a, b StrV) StrV {
	if a.Len.IsConst() {
		n := int(a.Len.val)
		out := append(append([]*Term(nil), a.B[:n]...), b.B...)
		return StrV{Len: Add(a.Len, b.Len), B: out}
	}
	capA, capB := len(a.B), len(b.B)
	lo := 0
	if a.Len.hasIv {
		lo = int(a.Len.lo)
		if int(a.Len.hi) < capA {
			capA = int(a.Len.hi)
		}
	}
	out := make([]*Term, capA+capB)
	z := BV(8, 0)
	for j := range out {
		var t *Term = z
		// if len(a) == la then out[j] = j<la ? a[j] : b[j-la]
		for la := capA; la >= lo; la-- {
			var v *Term
			if j < la {
				v = a.B[j]
			} else if j-la < capB {
				v = b.B[j-la]
			} else {
				v = z
			}
			if la == capA {
				t = v
			} else {
				t = Ite(Eq(a.Len, BV(64, uint64(la))), v, t)
			}
		}
		out[j] = t
	}
	return StrV{Len: Add(a.Len, b.Len), B: out}
}

func strIndex(e *Engine, c *Ctx, s StrV, idx *Term) *Term {
	s = fl(s)
	e.raise(c, Not(Ult(idx, s.Len)), "string index out of range")
	c.S.PC = And(c.S.PC, Ult(idx, s.Len))
	if idx.IsConst() {
		if int(idx.val) >= len(s.B) {
			return BV(8, 0)
		}
		return s.B[idx.val]
	}
	var t *Term = BV(8, 0)
	for i := len(s.B) - 1; i >= 0; i-- {
		t = Ite(Eq(idx, BV(64, uint64(i))), s.B[i], t)
	}
	return t
}

// ---------- main interpreter ----------

func (e *Engine) call(caller *Frame, c *Ctx, fn *ssa.Function, args []Value, bind []Value) (Value, *Ctx) {
	if fn.Blocks == nil {
		chain := ""
		for f := caller; f != nil && len(chain) < 400; f = f.Parent {
			chain += " <- " + f.Fn.String()
		}
		unsup("call to function without body: %s%s", fn, chain)
	}
	if e.funcsHit[fn.String()] == 0 {
		e.funcInstrs[fn.String()] = instrCount(fn)
	}
	e.funcsHit[fn.String()]++
	depth := 0
	if caller != nil {
		depth = caller.Depth + 1
	}
	if depth > e.MaxDepth {
		e.Obls = append(e.Obls, Obligation{Kind: "unwind", ID: "recursion depth in " + fn.String(), Cond: c.S.PC})
		return nil, nil
	}
	// eager regions are per function (not inherited by callees): branches of the named functions are pruned by a
	// feasibility decision, everything they call runs lazily unless named as well
	saved := e.eagerDepth
	if e.eager[fn.String()] || e.eager[fn.Name()] || (fn.Pkg != nil && e.eager[fn.Pkg.Pkg.Name()+"."+fn.Name()]) {
		e.eagerDepth = 1
	} else {
		e.eagerDepth = 0
	}
	defer func() { e.eagerDepth = saved }()
	fr := &Frame{Fn: fn, Forks: map[*ssa.BasicBlock]int{}, Depth: depth, Parent: caller}
	nc := &Ctx{S: c.S, Regs: map[ssa.Value]Value{}}
	for i, p := range fn.Params {
		nc.Regs[p] = args[i]
	}
	for i, fv := range fn.FreeVars {
		nc.Regs[fv] = bind[i]
	}
	e.exec(fr, nc, fn.Blocks[0], nil)
	// merge returns
	if len(fr.Rets) == 0 {
		return nil, nil
	}
	m := fr.Rets[len(fr.Rets)-1]
	mc := &Ctx{S: m.C.S, Regs: map[ssa.Value]Value{}}
	mv := m.V
	for i := len(fr.Rets) - 2; i >= 0; i-- {
		r := fr.Rets[i]
		rc := &Ctx{S: r.C.S, Regs: map[ssa.Value]Value{}}
		cond := r.C.S.PC
		if mv != nil {
			mv = mergeV(cond, r.V, mv)
		}
		mc = e.mergeCtx(cond, rc, mc, nil)
	}
	out := &Ctx{S: mc.S, Regs: c.Regs, Prev: c.Prev}
	return mv, out
}

// arrivals: contexts that reached one of the stop blocks (phis of that block already evaluated, Prev == nil).
type arrivals map[*ssa.BasicBlock]*Ctx

func inStops(stops []*ssa.BasicBlock, b *ssa.BasicBlock) bool {
	for _, s := range stops {
		if s == b {
			return true
		}
	}
	return false
}

// addArrival merges ctx x (arriving at block blk) into acc; contexts have disjoint path conditions.
func (e *Engine) addArrival(acc arrivals, blk *ssa.BasicBlock, x *Ctx) arrivals {
	if x == nil {
		return acc
	}
	if acc == nil {
		acc = arrivals{}
	}
	if old, ok := acc[blk]; ok {
		acc[blk] = e.mergeCtx(x.S.PC, x, old, nil)
		acc[blk].Prev = nil
	} else {
		acc[blk] = x
	}
	return acc
}

// exec runs from block b until control reaches one of the stop blocks, a return, or a panic.
func (e *Engine) exec(fr *Frame, c *Ctx, b *ssa.BasicBlock, stops []*ssa.BasicBlock) arrivals {
	return e.execFrom(fr, c, b, stops, -1)
}

func (e *Engine) execFrom(fr *Frame, c *Ctx, b *ssa.BasicBlock, stops []*ssa.BasicBlock, start int) arrivals {
	var out arrivals
	for {
		if start < 0 && inStops(stops, b) {
			e.evalPhis(c, b)
			c.Prev = nil
			return e.addArrival(out, b, c)
		}
		e.evalPhis(c, b)
		nphi := 0
		for _, in := range b.Instrs {
			if _, ok := in.(*ssa.Phi); ok {
				nphi++
			} else {
				break
			}
		}
		var nextB *ssa.BasicBlock
		fromStart := start >= 0
		if fromStart {
			nphi = start
			start = -1
		}
		if !fromStart && nphi >= 1 && len(b.Instrs) == nphi+3 {
			if done, handled, esc := e.guardedSliceRange(fr, c, b, stops, nphi); handled {
				for blk, x := range esc {
					if inStops(stops, blk) {
						out = e.addArrival(out, blk, x)
					}
				}
				exit := b.Succs[1]
				var at arrivals
				if done != nil {
					done.Prev = b
					e.evalPhis(done, exit)
					done.Prev = nil
					at = e.addArrival(at, exit, done)
				}
				if brk := esc[exit]; brk != nil && !inStops(stops, exit) {
					at = e.addArrival(at, exit, brk)
				}
				if at == nil || at[exit] == nil {
					return out
				}
				c = at[exit]
				c.Prev = nil
				b = exit
				if inStops(stops, b) {
					return e.addArrival(out, b, c)
				}
				start = e.firstNonPhi(b)
				continue
			}
		}
		var iterCall *ssa.Call
		if cl, ok := b.Instrs[nphi].(*ssa.Call); ok && start <= nphi {
			if fn := cl.Call.StaticCallee(); fn != nil && fn.String() == "(*github.com/go-openapi/analysis/internal/flatten/sortref.mapIterator).Next" {
				if _, isIf := b.Instrs[len(b.Instrs)-1].(*ssa.If); isIf {
					iterCall = cl
				}
			}
		}
		var iterEsc arrivals
		var iterCtx *Ctx
		if iterCall != nil {
			var handled bool
			iterCtx, iterEsc, handled = e.guardedIterCall(fr, c, b, nphi, iterCall, stops)
			if DebugFlat {
				fmt.Printf("    [guarded-iter-call] in %s: handled %v\n", fr.Fn.String(), handled)
			}
			if !handled {
				iterCall = nil
			}
		}
		if nx, ok := b.Instrs[nphi].(*ssa.Next); (ok && !nx.IsString) || iterCall != nil {
			// guarded iteration over a map: visit candidates in log order, each under its effectiveness guard
			var esc arrivals
			if iterCall != nil {
				c, esc = iterCtx, iterEsc
			} else {
				c, esc = e.guardedRange(fr, c, b, nphi, nx, stops)
			}
			for blk, x := range esc {
				if inStops(stops, blk) {
					out = e.addArrival(out, blk, x)
				}
			}
			// paths that left the loop with break arrive at the loop's exit block
			var done *ssa.BasicBlock
			if _, ok := b.Instrs[len(b.Instrs)-1].(*ssa.If); ok {
				done = b.Succs[1]
			}
			if brk := esc[done]; done != nil && brk != nil && !inStops(stops, done) {
				var rest arrivals
				if c != nil {
					rest = e.execFrom(fr, c, b, append(append([]*ssa.BasicBlock(nil), stops...), done), nphi+1)
				}
				for blk, x := range rest {
					if blk != done {
						out = e.addArrival(out, blk, x)
					}
				}
				var at arrivals
				at = e.addArrival(at, done, brk)
				if rest != nil {
					at = e.addArrival(at, done, rest[done])
				}
				c = at[done]
				c.Prev = nil
				b = done
				// continue from the exit block with phis already evaluated
				start = e.firstNonPhi(done)
				continue
			}
			if c == nil {
				return out
			}
			nphi++ // the Next instruction itself has been handled (exhausted tuple set)
		}
		for _, in := range b.Instrs[nphi:] {
			e.Steps++
			if e.Verbose {
				e.stepsBy[fr.Fn]++
			}
			if DebugFlat {
				curFn = fr.Fn.String()
			}
			if e.Verbose && e.Steps%20000 == 0 {
				fmt.Printf("    [exec] steps %d forks %d merges %d terms %d heap %d depth %d in %s\n", e.Steps, e.Forks, e.Merges, len(termList), len(c.S.Heap), fr.Depth, fr.Fn.Name())
			}
			switch x := in.(type) {
			case *ssa.If:
				cond := e.get(c, x.Cond).(BoolV).T
				t, f := b.Succs[0], b.Succs[1]
				if !cond.IsConst() && (!e.Lazy || fr.Forks[b] >= 6 || e.eagerDepth > 0) {
					ft := e.feasible(And(c.S.PC, cond))
					ff := e.feasible(And(c.S.PC, Not(cond)))
					switch {
					case ft && !ff:
						c.S.PC = And(c.S.PC, cond)
						cond = TTrue
					case !ft && ff:
						c.S.PC = And(c.S.PC, Not(cond))
						cond = TFalse
					case !ft && !ff:
						return out
					}
				}
				if cond.IsTrue() {
					c.Prev, nextB = b, t
					break
				}
				if cond.IsFalse() {
					c.Prev, nextB = b, f
					break
				}
				fr.Forks[b]++
				if fr.Forks[b] > e.Unwind {
					e.Obls = append(e.Obls, Obligation{Kind: "unwind", ID: fmt.Sprintf("%s block %d", fr.Fn, b.Index), Cond: c.S.PC})
					fr.Forks[b]--
					return out
				}
				e.Forks++
				j := e.ipdom(fr.Fn)[b]
				inner := stops
				if j != nil && !inStops(stops, j) {
					inner = append(append([]*ssa.BasicBlock(nil), stops...), j)
				}
				pc0 := c.S.PC
				c1 := c.fork(cond)
				c1.Prev = b
				c2 := c.fork(Not(cond))
				c2.Prev = b
				nret, nobl := len(fr.Rets), len(e.Obls)
				ncat := 0
				if n := len(e.catchers); n > 0 {
					ncat = len(e.catchers[n-1])
				}
				a1 := e.exec(fr, c1, t, inner)
				a2 := e.exec(fr, c2, f, inner)
				fr.Forks[b]--
				var m *Ctx
				for blk := range a1 {
					if _, ok := a2[blk]; !ok {
						if blk == j && !inStops(stops, j) {
							m = a1[blk]
						} else {
							out = e.addArrival(out, blk, a1[blk])
						}
					}
				}
				for blk, x2 := range a2 {
					x1, both := a1[blk]
					if !both {
						if blk == j && !inStops(stops, j) {
							m = x2
						} else {
							out = e.addArrival(out, blk, x2)
						}
						continue
					}
					var pc *Term
					if blk == j && len(a1) == 1 && len(a2) == 1 {
						escaped := len(fr.Rets) != nret || len(e.Obls) != nobl
						if n := len(e.catchers); n > 0 && len(e.catchers[n-1]) != ncat {
							escaped = true
						}
						if !escaped && x1.S.PC == And(pc0, cond) && x2.S.PC == And(pc0, Not(cond)) {
							pc = pc0
						}
					}
					mm := e.mergeCtx(cond, x1, x2, pc)
					mm.Prev = nil
					if blk == j && !inStops(stops, j) {
						m = mm
					} else {
						out = e.addArrival(out, blk, mm)
					}
				}
				if m == nil {
					return out
				}
				m.Prev = nil // phis of j already evaluated
				c = m
				nextB = j
			case *ssa.Jump:
				c.Prev, nextB = b, b.Succs[0]
			case *ssa.Return:
				var v Value
				switch len(x.Results) {
				case 0:
				case 1:
					v = e.get(c, x.Results[0])
				default:
					t := TupleV{}
					for _, r := range x.Results {
						t.E = append(t.E, e.get(c, r))
					}
					v = t
				}
				fr.Rets = append(fr.Rets, Ret{c, v})
				return out
			case *ssa.Panic:
				e.raise(c, TTrue, "explicit panic in "+fr.Fn.String())
				return out
			default:
				if !e.step(fr, c, in) {
					return out
				}
			}
			if nextB != nil {
				break
			}
		}
		if nextB == nil {
			unsup("block without terminator")
		}
		if c.Prev == nil && nextB != nil {
			// arrived at the join of a fork: phis are evaluated; skip them
			b = nextB
			if inStops(stops, b) {
				return e.addArrival(out, b, c)
			}
			start = e.firstNonPhi(b)
			continue
		}
		b = nextB
	}
}

func (e *Engine) firstNonPhi(b *ssa.BasicBlock) int {
	n := 0
	for _, in := range b.Instrs {
		if _, ok := in.(*ssa.Phi); ok {
			n++
		} else {
			break
		}
	}
	return n
}

// evalPhis evaluates the phi nodes of b for a context arriving from c.Prev (no-op if c.Prev is nil).
func (e *Engine) evalPhis(c *Ctx, b *ssa.BasicBlock) {
	if c.Prev == nil || b == nil {
		return
	}
	var phis []*ssa.Phi
	var vals []Value
	for _, in := range b.Instrs {
		p, ok := in.(*ssa.Phi)
		if !ok {
			break
		}
		idx := -1
		for i, pr := range b.Preds {
			if pr == c.Prev {
				idx = i
			}
		}
		if idx < 0 {
			unsup("phi: predecessor not found")
		}
		phis = append(phis, p)
		vals = append(vals, e.get(c, p.Edges[idx]))
	}
	for i, p := range phis {
		c.Regs[p] = vals[i]
	}
	c.Prev = nil
}

func asPtr(v Value) PtrV { return v.(PtrV) }

// step executes a non-terminator instruction; returns false if the context died.
func (e *Engine) step(fr *Frame, c *Ctx, in ssa.Instruction) bool {
	switch x := in.(type) {
	case *ssa.DebugRef:
	case *ssa.Alloc:
		id := e.newObj(c, &Obj{Val: zero(x.Type().(*types.Pointer).Elem())})
		c.Regs[x] = PtrV{[]PtrAlt{{G: TTrue, Obj: id}}}
	case *ssa.FieldAddr:
		p := asPtr(e.get(c, x.X))
		var alts []PtrAlt
		for _, a := range p.Alts {
			if a.Obj == -1 {
				e.raise(c, a.G, "nil dereference (field addr) in "+fr.Fn.String())
				c.S.PC = And(c.S.PC, Not(a.G))
				continue
			}
			alts = append(alts, PtrAlt{a.G, a.Obj, append(append([]int(nil), a.Path...), x.Field)})
		}
		if len(alts) == 0 {
			return false
		}
		c.Regs[x] = PtrV{alts}
	case *ssa.Field:
		c.Regs[x] = e.get(c, x.X).(StructV).F[x.Field]
	case *ssa.IndexAddr:
		if ref, ok := fr.listElem[x.Index]; ok {
			if sv, ok := e.get(c, x.X).(SliceV); ok && (len(sv.Alts) == 1 && sv.Alts[0].Obj == ref.obj || ref.obj < -1 && x.X == ref.reg) {
				// the element of the current guarded iteration (read through a private cell)
				id := e.newObj(c, &Obj{Val: ArrayV{[]Value{ref.entry.V}}})
				c.Regs[x] = PtrV{[]PtrAlt{{G: TTrue, Obj: id, Path: []int{0}}}}
				break
			}
		}
		idx := e.get(c, x.Index).(IntV).T
		switch base := e.get(c, x.X).(type) {
		case PtrV: // pointer to array
			var alts []PtrAlt
			for _, a := range base.Alts {
				if a.Obj == -1 {
					e.raise(c, a.G, "nil array pointer")
					continue
				}
				if !idx.IsConst() {
					unsup("symbolic index into array pointer")
				}
				alts = append(alts, PtrAlt{a.G, a.Obj, append(append([]int(nil), a.Path...), int(idx.val))})
			}
			c.Regs[x] = PtrV{alts}
		case SliceV:
			var alts []PtrAlt
			for _, a := range base.Alts {
				inb := Ult(Resize(idx, 64, true), a.Len)
				e.raise(c, And(a.G, Not(inb)), "index out of range in "+fr.Fn.String())
				c.S.PC = And(c.S.PC, Or(Not(a.G), inb))
				if a.Obj == -1 {
					continue
				}
				alen := len(e.arr(c, a.Obj).E)
				if idx.IsConst() {
					if a.Off+int(idx.val) < alen {
						alts = addPtrAlt(alts, PtrAlt{a.G, a.Obj, []int{a.Off + int(idx.val)}})
					}
				} else {
					for i := 0; i < a.Cap && a.Off+i < alen; i++ {
						alts = addPtrAlt(alts, PtrAlt{And(a.G, Eq(idx, BV(idx.width, uint64(i)))), a.Obj, []int{a.Off + i}})
					}
				}
			}
			if len(alts) == 0 {
				return false
			}
			c.Regs[x] = PtrV{alts}
		default:
			unsup("IndexAddr on %T", base)
		}
	case *ssa.Index:
		idx := e.get(c, x.Index).(IntV).T
		switch base := e.get(c, x.X).(type) {
		case StrV:
			c.Regs[x] = IntV{strIndex(e, c, base, Resize(idx, 64, true))}
		case ArrayV:
			if !idx.IsConst() {
				unsup("symbolic array index")
			}
			c.Regs[x] = base.E[idx.val]
		default:
			unsup("Index on %T", base)
		}
	case *ssa.UnOp:
		v := e.get(c, x.X)
		switch x.Op {
		case token.MUL:
			r := e.load(c, asPtr(v), fr.Fn.String())
			if r == nil {
				return false
			}
			c.Regs[x] = r
		case token.NOT:
			c.Regs[x] = BoolV{Not(v.(BoolV).T)}
		case token.SUB:
			t := v.(IntV).T
			c.Regs[x] = IntV{Sub(BV(t.width, 0), t)}
		default:
			unsup("unop %v", x.Op)
		}
	case *ssa.Store:
		e.store(c, asPtr(e.get(c, x.Addr)), e.get(c, x.Val), fr.Fn.String())
	case *ssa.BinOp:
		c.Regs[x] = e.binop(c, x)
	case *ssa.ChangeType:
		c.Regs[x] = e.get(c, x.X)
	case *ssa.Convert:
		c.Regs[x] = e.convert(c, x)
	case *ssa.MakeInterface:
		c.Regs[x] = IfaceV{[]IfaceAlt{{G: TTrue, Typ: x.X.Type(), V: e.get(c, x.X)}}}
	case *ssa.ChangeInterface:
		c.Regs[x] = e.get(c, x.X)
	case *ssa.MakeMap:
		id := e.newObj(c, &Obj{IsMap: true})
		c.Regs[x] = MapV{[]MapAlt{{TTrue, id}}}
	case *ssa.MakeSlice:
		ln := e.get(c, x.Len).(IntV).T
		cp := e.get(c, x.Cap).(IntV).T
		inexact := false
		if !cp.IsConst() {
			if !cp.hasIv {
				unsup("MakeSlice with unbounded symbolic capacity")
			}
			cp = BV(64, cp.hi)
			inexact = true
		}
		if !ln.IsConst() && ln.hasIv && ln.hi > cp.val {
			cp = BV(64, ln.hi)
			inexact = true
		}
		et := x.Type().Underlying().(*types.Slice).Elem()
		n := int(cp.val)
		el := make([]Value, n)
		for i := range el {
			el[i] = zero(et)
		}
		id := e.newObj(c, &Obj{Val: ArrayV{el}, CapInexact: inexact})
		c.Regs[x] = SliceV{[]SliceAlt{{TTrue, id, 0, Resize(ln, 64, true), n}}}
	case *ssa.MakeClosure:
		fv := FuncV{Fn: x.Fn.(*ssa.Function)}
		for _, b := range x.Bindings {
			fv.Bind = append(fv.Bind, e.get(c, b))
		}
		c.Regs[x] = fv
	case *ssa.MapUpdate:
		e.mapUpdate(c, e.get(c, x.Map).(MapV), e.get(c, x.Key), e.get(c, x.Value), false)
	case *ssa.Lookup:
		switch m := e.get(c, x.X).(type) {
		case MapV:
			v, ok := e.mapLookup(c, m, e.get(c, x.Index), x.X.Type().Underlying().(*types.Map).Elem())
			if x.CommaOk {
				c.Regs[x] = TupleV{[]Value{v, BoolV{ok}}}
			} else {
				c.Regs[x] = v
			}
		case StrV:
			c.Regs[x] = IntV{strIndex(e, c, m, Resize(e.get(c, x.Index).(IntV).T, 64, true))}
		}
	case *ssa.Range:
		switch m := e.get(c, x.X).(type) {
		case MapV:
			c.Regs[x] = e.rangeMap(c, m)
		default:
			unsup("range over %T", m)
		}
	case *ssa.Next:
		mt := x.Iter.(*ssa.Range).X.Type().Underlying().(*types.Map)
		c.Regs[x] = e.nextMap(c, e.get(c, x.Iter).(IterV), mt.Key(), mt.Elem())
	case *ssa.Extract:
		c.Regs[x] = e.get(c, x.Tuple).(TupleV).E[x.Index]
	case *ssa.Slice:
		c.Regs[x] = e.slice(c, x)
	case *ssa.TypeAssert:
		iv := e.get(c, x.X).(IfaceV)
		var res Value
		ok := TFalse
		if types.IsInterface(x.AssertedType) {
			it := x.AssertedType.Underlying().(*types.Interface)
			var alts []IfaceAlt
			for _, a := range iv.Alts {
				if a.Typ != nil && types.Implements(a.Typ, it) {
					ok = Or(ok, a.G)
					alts = append(alts, a)
				}
			}
			alts = append(alts, IfaceAlt{G: Not(ok)})
			if x.CommaOk {
				c.Regs[x] = TupleV{[]Value{IfaceV{alts}, BoolV{ok}}}
			} else {
				e.raise(c, Not(ok), "failed interface type assertion")
				c.S.PC = And(c.S.PC, ok)
				c.Regs[x] = IfaceV{alts}
			}
			break
		}
		for _, a := range iv.Alts {
			if a.Typ != nil && types.Identical(a.Typ, x.AssertedType) {
				ok = Or(ok, a.G)
				if res == nil {
					res = a.V
				} else {
					res = mergeV(a.G, a.V, res)
				}
			}
		}
		if res == nil {
			res = zero(x.AssertedType)
		}
		if x.CommaOk {
			c.Regs[x] = TupleV{[]Value{res, BoolV{ok}}}
		} else {
			e.raise(c, Not(ok), "failed type assertion")
			c.S.PC = And(c.S.PC, ok)
			c.Regs[x] = res
		}
	case *ssa.Call:
		v, nc, alive := e.doCall(fr, c, x)
		if !alive {
			return false
		}
		c.S = nc.S
		if v != nil {
			c.Regs[x] = v
		} else if x.Type() != nil {
			if tup, ok := x.Type().(*types.Tuple); !ok || tup.Len() > 0 {
				c.Regs[x] = zero(x.Type())
			}
		}
	case *ssa.RunDefers:
	default:
		unsup("instruction %T: %s", in, in)
	}
	return true
}

func cpHi(t *Term) uint64 {
	if t.hasIv {
		return t.hi
	}
	return 0
}

func (e *Engine) slice(c *Ctx, x *ssa.Slice) Value {
	curSliceFn = x.Parent().String()
	base := e.get(c, x.X)
	getI := func(v ssa.Value, def *Term) *Term {
		if v == nil {
			return def
		}
		return Resize(e.get(c, v).(IntV).T, 64, true)
	}
	switch b := base.(type) {
	case PtrV: // *[N]T
		if len(b.Alts) != 1 || b.Alts[0].Obj == -1 {
			unsup("slice of uncertain array pointer")
		}
		a := b.Alts[0]
		arr := getPath(c.S.Heap[a.Obj].Val, a.Path).(ArrayV)
		if len(a.Path) != 0 {
			unsup("slice of nested array")
		}
		lo := getI(x.Low, BV(64, 0))
		hi := getI(x.High, BV(64, uint64(len(arr.E))))
		if !lo.IsConst() {
			unsup("symbolic slice low bound in %s", curSliceFn)
		}
		return SliceV{[]SliceAlt{{TTrue, a.Obj, int(lo.val), Sub(hi, lo), len(arr.E) - int(lo.val)}}}
	case SliceV:
		var alts []SliceAlt
		for _, a := range b.Alts {
			lo := getI(x.Low, BV(64, 0))
			hi := getI(x.High, a.Len)
			if a.Obj == -1 {
				alts = append(alts, a)
				continue
			}
			if !lo.IsConst() {
				// symbolic low bound with a small interval: one alternative per value
				if !lo.hasIv || lo.hi-lo.lo > 8 {
					unsup("symbolic slice low bound without a small interval in %s", curSliceFn)
				}
				e.arr(c, a.Obj) // force the positional view once
				for l := lo.lo; l <= lo.hi && int(l) <= a.Cap; l++ {
					g := And(a.G, Eq(lo, BV(64, l)))
					if g.IsFalse() {
						continue
					}
					alts = append(alts, SliceAlt{g, a.Obj, a.Off + int(l), Sub(hi, BV(64, l)), a.Cap - int(l)})
				}
				continue
			}
			alts = append(alts, SliceAlt{a.G, a.Obj, a.Off + int(lo.val), Sub(hi, lo), a.Cap - int(lo.val)})
		}
		return SliceV{alts}
	case StrV:
		if b.B == nil && b.Ch != nil && x.High == nil && x.Low != nil {
			if lo := e.get(c, x.Low).(IntV).T; lo.IsConst() {
				var cut func(s StrV) StrV
				cut = func(s StrV) StrV {
					if s.B == nil && s.Ch != nil {
						return mergeV(s.Ch.C, cut(s.Ch.A), cut(s.Ch.B)).(StrV)
					}
					if s.R != nil && len(s.R.Toks[0]) > 0 {
						if cs, ok := s.R.Toks[0][0].Concrete(); ok && int(lo.val) <= len(cs) {
							first := append([]StrV(nil), s.R.Toks[0][1:]...)
							if rest := cs[lo.val:]; rest != "" {
								first = append([]StrV{flatC(rest)}, first...)
							}
							nr := &Rope{Toks: append([][]StrV{first}, s.R.Toks[1:]...)}
							return StrV{Len: ropeLen(nr), R: nr}
						}
					}
					f := fl(s)
					l := int(lo.val)
					if l > len(f.B) {
						l = len(f.B)
					}
					res := StrV{Len: Sub(f.Len, lo), B: f.B[l:]}
					if f.Len.IsConst() && f.Len.val < lo.val {
						return StrC("") // out of range: the panic is raised by the caller's bounds check; keep structure
					}
					if cs, ok := res.Concrete(); ok {
						return StrC(cs)
					}
					return res
				}
				return cut(b)
			}
		}
		if b.R != nil && x.High == nil && x.Low != nil {
			if lo := e.get(c, x.Low).(IntV).T; lo.IsConst() && len(b.R.Toks[0]) > 0 {
				if cs, ok := b.R.Toks[0][0].Concrete(); ok && int(lo.val) <= len(cs) {
					first := append([]StrV(nil), b.R.Toks[0][1:]...)
					if rest := cs[lo.val:]; rest != "" {
						first = append([]StrV{flatC(rest)}, first...)
					}
					nr := &Rope{Toks: append([][]StrV{first}, b.R.Toks[1:]...)}
					return StrV{Len: ropeLen(nr), R: nr}
				}
			}
		}
		b = fl(b)
		lo := getI(x.Low, BV(64, 0))
		hi := getI(x.High, b.Len)
		if lo.IsConst() {
			l := int(lo.val)
			if l > len(b.B) {
				l = len(b.B)
			}
			return StrV{Len: Sub(hi, lo), B: b.B[l:]}
		}
		// symbolic low bound: result[j] = b.B[lo+j] as ite chain over lo's interval
		if !lo.hasIv {
			unsup("string slice with unbounded symbolic low bound")
		}
		l0, l1 := int(lo.lo), int(lo.hi)
		if l1 > len(b.B) {
			l1 = len(b.B)
		}
		n := len(b.B) - l0
		if n < 0 {
			n = 0
		}
		out := make([]*Term, n)
		for j := 0; j < n; j++ {
			var t *Term = BV(8, 0)
			for l := l1; l >= l0; l-- {
				var v *Term = BV(8, 0)
				if l+j < len(b.B) {
					v = b.B[l+j]
				}
				t = Ite(Eq(lo, BV(64, uint64(l))), v, t)
			}
			out[j] = t
		}
		return StrV{Len: Sub(hi, lo), B: out}
	}
	unsup("slice of %T", base)
	return nil
}

func (e *Engine) convert(c *Ctx, x *ssa.Convert) Value {
	v := e.get(c, x.X)
	from, to := x.X.Type(), x.Type()
	if wt, _, ok := intWidth(to); ok {
		if _, sf, ok2 := intWidth(from); ok2 {
			return IntV{Resize(v.(IntV).T, wt, sf)}
		}
	}
	if _, ok := v.(StrV); ok {
		if b, ok := to.Underlying().(*types.Basic); ok && b.Info()&types.IsString != 0 {
			return v
		}
	}
	// []byte -> string
	if sv, ok := v.(SliceV); ok {
		if b, ok := to.Underlying().(*types.Basic); ok && b.Info()&types.IsString != 0 {
			var res Value
			for _, a := range sv.Alts {
				var s StrV
				if a.Obj == -1 {
					s = StrC("")
				} else {
					arr := e.arr(c, a.Obj)
					n := a.Cap
					if a.Len.hasIv && int(a.Len.hi) < n {
						n = int(a.Len.hi)
					}
					bs := make([]*Term, 0, n)
					for i := 0; i < n && a.Off+i < len(arr.E); i++ {
						bs = append(bs, arr.E[a.Off+i].(IntV).T)
					}
					s = StrV{Len: a.Len, B: bs}
				}
				if res == nil {
					res = s
				} else {
					res = mergeV(a.G, s, res)
				}
			}
			return res
		}
	}
	// string -> []byte
	if sv, ok := v.(StrV); ok {
		if sl, ok := to.Underlying().(*types.Slice); ok {
			if b, ok := sl.Elem().Underlying().(*types.Basic); ok && b.Kind() == types.Uint8 {
				f := fl(sv)
				el := make([]Value, len(f.B))
				for i := range el {
					el[i] = IntV{f.B[i]}
				}
				id := e.newObj(c, &Obj{Val: ArrayV{el}})
				return SliceV{[]SliceAlt{{TTrue, id, 0, f.Len, len(el)}}}
			}
		}
	}
	unsup("convert %v -> %v", from, to)
	return nil
}

func (e *Engine) binop(c *Ctx, x *ssa.BinOp) Value {
	a, b := e.get(c, x.X), e.get(c, x.Y)
	switch x.Op {
	case token.EQL:
		return BoolV{eqV(a, b)}
	case token.NEQ:
		return BoolV{Not(eqV(a, b))}
	}
	switch av := a.(type) {
	case StrV:
		bv := b.(StrV)
		switch x.Op {
		case token.ADD:
			return strConcat(av, bv)
		case token.LSS:
			return BoolV{strLess(av, bv)}
		case token.GTR:
			return BoolV{strLess(bv, av)}
		case token.LEQ:
			return BoolV{Not(strLess(bv, av))}
		case token.GEQ:
			return BoolV{Not(strLess(av, bv))}
		}
		unsup("string binop %v", x.Op)
	case BoolV:
		unsup("bool binop %v", x.Op)
	case IntV:
		bt := b.(IntV).T
		at := av.T
		_, signed, _ := intWidth(x.X.Type())
		switch x.Op {
		case token.ADD:
			return IntV{Add(at, bt)}
		case token.SUB:
			return IntV{Sub(at, bt)}
		case token.MUL:
			return IntV{Mul(at, bt)}
		case token.AND:
			return IntV{BinBV(OBvAnd, at, bt)}
		case token.OR:
			return IntV{BinBV(OBvOr, at, bt)}
		case token.XOR:
			return IntV{BinBV(OBvXor, at, bt)}
		case token.AND_NOT:
			return IntV{BinBV(OBvAnd, at, BinBV(OBvXor, bt, BV(bt.width, mask(bt.width))))}
		case token.SHL, token.SHR:
			sh := Resize(bt, at.width, false)
			if bt.width > at.width && !bt.IsConst() {
				unsup("shift by wider symbolic amount")
			}
			if x.Op == token.SHL {
				return IntV{BinBV(OShl, at, sh)}
			}
			if signed {
				return IntV{BinBV(OAshr, at, sh)}
			}
			return IntV{BinBV(OLshr, at, sh)}
		case token.QUO, token.REM:
			e.raise(c, Eq(bt, BV(bt.width, 0)), "integer divide by zero")
			c.S.PC = And(c.S.PC, Not(Eq(bt, BV(bt.width, 0))))
			switch {
			case x.Op == token.QUO && signed:
				return IntV{BinBV(OSdiv, at, bt)}
			case x.Op == token.QUO:
				return IntV{BinBV(OUdiv, at, bt)}
			case signed:
				return IntV{BinBV(OSrem, at, bt)}
			}
			return IntV{BinBV(OUrem, at, bt)}
		case token.LSS:
			if signed {
				return BoolV{Slt(at, bt)}
			}
			return BoolV{Ult(at, bt)}
		case token.LEQ:
			if signed {
				return BoolV{Sle(at, bt)}
			}
			return BoolV{Ule(at, bt)}
		case token.GTR:
			if signed {
				return BoolV{Slt(bt, at)}
			}
			return BoolV{Ult(bt, at)}
		case token.GEQ:
			if signed {
				return BoolV{Sle(bt, at)}
			}
			return BoolV{Ule(bt, at)}
		}
		unsup("int binop %v", x.Op)
	}
	unsup("binop on %T", a)
	return nil
}

func (e *Engine) doCall(fr *Frame, c *Ctx, x *ssa.Call) (Value, *Ctx, bool) {
	cc := x.Common()
	var args []Value
	if cc.IsInvoke() {
		return e.invoke(fr, c, x)
	}
	// debugLog(...) via global func var: no-op
	if u, ok := cc.Value.(*ssa.UnOp); ok {
		if g, ok := u.X.(*ssa.Global); ok && g.Name() == "debugLog" {
			return nil, c, true
		}
	}
	for _, a := range cc.Args {
		args = append(args, e.get(c, a))
	}
	if b, ok := cc.Value.(*ssa.Builtin); ok {
		return e.builtin(fr, c, b.Name(), args, x), c, true
	}
	var fn *ssa.Function
	var bind []Value
	if sf := cc.StaticCallee(); sf != nil {
		fn = sf
		if mc, ok := cc.Value.(*ssa.MakeClosure); ok {
			for _, b := range mc.Bindings {
				bind = append(bind, e.get(c, b))
			}
		}
	} else {
		fv := e.get(c, cc.Value).(FuncV)
		if fv.Fn == nil {
			e.raise(c, TTrue, "call of nil func")
			return nil, nil, false
		}
		fn, bind = fv.Fn, fv.Bind
	}
	name := fn.String()
	if fn.Synthetic == "package initializer" && fn.Pkg != nil && !strings.HasPrefix(fn.Pkg.Pkg.Path(), "github.com/go-openapi/analysis") {
		return nil, c, true // dependency initialisers are not run (their globals are only reachable through intercepted calls)
	}
	if h, ok := e.intercept[name]; ok {
		if distributable[name] {
			if v, alive, done := e.distribute(h, fr, c, args, cc); done {
				return v, c, alive
			}
		}
		v, alive := h(e, fr, c, args, cc)
		return v, c, alive
	}
	if strings.HasPrefix(name, "log.") || strings.HasPrefix(name, "fmt.Print") {
		return nil, c, true
	}
	v, nc := e.call(fr, c, fn, args, bind)
	if nc == nil {
		return nil, nil, false
	}
	return v, nc, true
}

func (e *Engine) builtin(fr *Frame, c *Ctx, name string, args []Value, x *ssa.Call) Value {
	switch name {
	case "len":
		switch a := args[0].(type) {
		case StrV:
			return IntV{a.Len}
		case SliceV:
			var t *Term = BV(64, 0)
			for i, al := range a.Alts {
				if i == 0 {
					t = al.Len
				} else {
					t = Ite(al.G, al.Len, t)
				}
			}
			return IntV{t}
		case MapV:
			return IntV{e.mapLen(c, a)}
		}
	case "ssa:wrapnilchk":
		p := args[0].(PtrV)
		for _, a := range p.Alts {
			if a.Obj == -1 {
				e.raise(c, a.G, "nil receiver in wrapper")
				c.S.PC = And(c.S.PC, Not(a.G))
			}
		}
		return p
	case "delete":
		e.mapUpdate(c, args[0].(MapV), args[1], nil, true)
		return nil
	case "append":
		return e.appendSlice(c, args[0].(SliceV), args[1], x.Type().Underlying().(*types.Slice).Elem())
	}
	unsup("builtin %s(%T)", name, args[0])
	return nil
}

// sliceView: merged element view and length of a guarded slice value (elements beyond the length are unspecified).
func (e *Engine) sliceView(c *Ctx, s SliceV, et types.Type) ([]Value, *Term) {
	hi := 0
	for _, a := range s.Alts {
		if a.Obj == -1 {
			continue
		}
		h := a.Cap
		if a.Len.hasIv && int(a.Len.hi) < h {
			h = int(a.Len.hi)
		}
		if h > hi {
			hi = h
		}
	}
	var ln *Term = BV(64, 0)
	el := make([]Value, hi)
	for i := range el {
		el[i] = zero(et)
	}
	for ai, a := range s.Alts {
		if ai == 0 {
			ln = a.Len
		} else {
			ln = Ite(a.G, a.Len, ln)
		}
		if a.Obj == -1 {
			continue
		}
		arr := e.arr(c, a.Obj)
		for i := 0; i < hi && a.Off+i < len(arr.E); i++ {
			if ai == 0 || len(s.Alts) == 1 {
				el[i] = arr.E[a.Off+i]
			} else {
				el[i] = mergeV(a.G, arr.E[a.Off+i], el[i])
			}
		}
	}
	return el, ln
}

// appendSlice models append as copy-on-append (a fresh object every time; aliasing of a shared backing array between
// two appends to the same slice is outside the model and does not occur in the code under test). The result is a
// guarded list: elements keep their presence guards, positions are only computed if somebody indexes the slice.
func (e *Engine) appendSlice(c *Ctx, s SliceV, more Value, et types.Type) Value {
	l := append([]ListEntry(nil), e.listView(c, s, et)...)
	switch m := more.(type) {
	case SliceV:
		for _, en := range e.listView(c, m, et) {
			l = append(l, ListEntry{en.G, en.V, freshUID()})
		}
	case StrV: // append([]byte, string...)
		f := fl(m)
		for i, b := range f.B {
			l = append(l, ListEntry{Ult(BV(64, uint64(i)), f.Len), IntV{b}, freshUID()})
		}
	}
	// append to a slice with spare capacity writes into the existing backing array: when that array existed at the
	// freeze this is a write to shared memory (the capacity is exact for arrays and make(), not for append-built slices)
	if e.frozen > 0 {
		var moreLen *Term
		switch m := more.(type) {
		case SliceV:
			for _, ma := range m.Alts {
				if ma.Obj == -1 {
					continue
				}
				t := Ite(ma.G, ma.Len, BV(64, 0))
				if moreLen == nil {
					moreLen = t
				} else {
					moreLen = Add(moreLen, t)
				}
			}
		case StrV:
			moreLen = fl(m).Len
		}
		for _, a := range s.Alts {
			if a.Obj == -1 || moreLen == nil {
				continue
			}
			o := c.S.Heap[a.Obj]
			if o.Epoch < e.frozen && !o.HasList && o.Thunk == nil && !o.CapInexact && o.Val != nil {
				cond := And(c.S.PC, a.G, Ult(a.Len, BV(64, uint64(a.Cap))), Not(Eq(moreLen, BV(64, 0))))
				if !cond.IsFalse() {
					e.Obls = append(e.Obls, Obligation{Kind: "frozen-write", ID: "append into the spare capacity of a slice that existed at the freeze", Cond: cond})
				}
			}
		}
	}
	th := &appThunk{}
	mk := func(sv SliceV) []thunkAlt {
		var out []thunkAlt
		for _, a := range sv.Alts {
			ta := thunkAlt{G: a.G, Off: a.Off, Len: a.Len, Cap: a.Cap}
			if a.Obj != -1 {
				ta.O = c.S.Heap[a.Obj]
			}
			out = append(out, ta)
		}
		return out
	}
	th.Base = mk(s)
	capN := 0
	for _, a := range th.Base {
		h := a.Cap
		if a.Len.hasIv && int(a.Len.hi) < h {
			h = int(a.Len.hi)
		}
		if a.O != nil && h > capN {
			capN = h
		}
	}
	tcap := 0
	switch m := more.(type) {
	case SliceV:
		th.Tail = mk(m)
		for _, a := range th.Tail {
			h := a.Cap
			if a.Len.hasIv && int(a.Len.hi) < h {
				h = int(a.Len.hi)
			}
			if a.O != nil && h > tcap {
				tcap = h
			}
		}
	case StrV:
		f := fl(m)
		th.StrTail = &f
		tcap = len(f.B)
	}
	id := e.newObj(c, &Obj{List: l, HasList: true, ElemZ: zero(et), Thunk: th})
	return SliceV{[]SliceAlt{{TTrue, id, 0, listCount(l), capN + tcap}}}
}

// invoke dispatches an interface method call over the guarded alternatives of the receiver.
func (e *Engine) invoke(fr *Frame, c *Ctx, x *ssa.Call) (Value, *Ctx, bool) {
	cc := x.Common()
	recv := e.get(c, cc.Value).(IfaceV)
	var args []Value
	for _, a := range cc.Args {
		args = append(args, e.get(c, a))
	}
	if cc.Method.Name() == "ContainsName" {
		// strfmt.Default.ContainsName: exact for strings without '-' other than "date-time" (harness domain: "", "date", "x-unknown")
		names := []string{"bsonobjectid", "byte", "cidr", "creditcard", "date", "datetime", "date-time", "duration", "email", "hexcolor", "hostname",
			"ipv4", "ipv6", "isbn", "isbn10", "isbn13", "mac", "password", "rgbcolor", "ssn", "ulid", "uri", "uuid", "uuid3", "uuid4", "uuid5"}
		sv := args[0].(StrV)
		var disj []*Term
		for _, n := range names {
			disj = append(disj, eqV(sv, StrC(n)))
		}
		return BoolV{Or(disj...)}, c, true
	}
	var res Value
	var out *Ctx
	for _, a := range recv.Alts {
		if a.G.IsFalse() {
			continue
		}
		if a.Typ == nil {
			e.raise(c, a.G, "method call on nil interface")
			continue
		}
		cx := c.fork(a.G)
		var v Value
		var nc *Ctx
		if ae, ok := a.V.(AbsErr); ok && cc.Method.Name() == "Error" {
			v, nc = ae.Msg, cx
		} else {
			fn := e.prog.LookupMethod(a.Typ, cc.Method.Pkg(), cc.Method.Name())
			if fn == nil {
				unsup("no method %s on %v", cc.Method.Name(), a.Typ)
			}
			v, nc = e.call(fr, cx, fn, append([]Value{a.V}, args...), nil)
		}
		if nc == nil {
			continue
		}
		nx := &Ctx{S: nc.S, Regs: c.Regs, Prev: c.Prev}
		if out == nil {
			out, res = nx, v
		} else {
			if v != nil {
				res = mergeV(a.G, v, res)
			}
			m := e.mergeCtx(a.G, &Ctx{S: nx.S, Regs: map[ssa.Value]Value{}}, &Ctx{S: out.S, Regs: map[ssa.Value]Value{}}, nil)
			out = &Ctx{S: m.S, Regs: c.Regs, Prev: c.Prev}
		}
	}
	if out == nil {
		return nil, nil, false
	}
	return res, out, true
}


// guardedRange runs all iterations of a map range loop whose header is b (Next at index k).
// Returns the context in which the iterator is exhausted (Next tuple = (false, zero, zero)) — nil if no path gets
// there — and the arrivals of paths that left the loop body towards another block (break, continue of an outer loop…).
func (e *Engine) guardedRange(fr *Frame, c *Ctx, b *ssa.BasicBlock, k int, nx *ssa.Next, stops []*ssa.BasicBlock) (*Ctx, arrivals) {
	mt := nx.Iter.(*ssa.Range).X.Type().Underlying().(*types.Map)
	itv := e.get(c, nx.Iter).(IterV)
	return e.guardedIter(fr, c, b, k, itv, stops, func(cx *Ctx, ok bool, key, val Value) {
		if ok {
			cx.Regs[nx] = TupleV{[]Value{BoolV{TTrue}, key, val}}
		} else {
			cx.Regs[nx] = TupleV{[]Value{BoolV{TFalse}, zero(mt.Key()), zero(mt.Elem())}}
		}
	})
}

// guardedIterCall: the loop `for it.Next() { k := it.Key() ... }` of sortref's reflect-based map iterator, run
// candidate by candidate like a native map range (the current entry is published in the iterator's cell)
func (e *Engine) guardedIterCall(fr *Frame, c *Ctx, b *ssa.BasicBlock, k int, call *ssa.Call, stops []*ssa.BasicBlock) (*Ctx, arrivals, bool) {
	recv, ok := e.get(c, call.Call.Args[0]).(PtrV)
	if !ok || len(recv.Alts) != 1 || recv.Alts[0].Obj < 0 {
		return dbgGIC(1)
	}
	mi, ok := e.load(c, recv, "mapIterator.Next").(StructV)
	if !ok {
		return dbgGIC(2)
	}
	var cellPtr PtrV
	ok = false
	for _, f := range mi.F {
		if pv, isP := f.(PtrV); isP {
			cellPtr, ok = pv, true
		}
	}
	if !ok || len(cellPtr.Alts) != 1 || cellPtr.Alts[0].Obj < 0 {
		return dbgGIC(3)
	}
	cellObj := cellPtr.Alts[0].Obj
	cell, ok := c.S.Heap[cellObj].Val.(StructV)
	if !ok || len(cell.F) != 2 {
		return dbgGIC(4)
	}
	itv, ok := cell.F[0].(IterV)
	if !ok {
		return dbgGIC(5)
	}
	if cur := c.S.Heap[itv.Obj].Cur; len(cur) != 1 || cur[0].Idx != 0 {
		return dbgGIC(6) // the iteration has already started positionally
	}
	out, esc := e.guardedIter(fr, c, b, k, itv, stops, func(cx *Ctx, ok bool, key, val Value) {
		if ok {
			cx.S.Heap[cellObj] = &Obj{Val: StructV{[]Value{itv, TupleV{[]Value{BoolV{TTrue}, key, val}}}}, Epoch: cx.S.Heap[cellObj].Epoch}
			cx.Regs[call] = BoolV{TTrue}
		} else {
			cx.Regs[call] = BoolV{TFalse}
		}
	})
	return out, esc, true
}

func (e *Engine) guardedIter(fr *Frame, c *Ctx, b *ssa.BasicBlock, k int, itv IterV, stops []*ssa.BasicBlock, publish func(cx *Ctx, ok bool, key, val Value)) (*Ctx, arrivals) {
	var esc arrivals
	inner := append(append([]*ssa.BasicBlock(nil), stops...), b)
	if _, ok := b.Instrs[len(b.Instrs)-1].(*ssa.If); ok && !inStops(inner, b.Succs[1]) {
		inner = append(inner, b.Succs[1])
	}
	for {
		it := c.S.Heap[itv.Obj]
		i := it.Cur[0].Idx
		n := len(it.Cands)
		if i >= n {
			publish(c, false, nil, nil)
			return c, esc
		}
		// effectiveness of candidate i: last snapshot write of its key, and still present
		cand := it.Cands[i]
		if cand.Tomb {
			c.S.Heap[itv.Obj] = &Obj{IsIter: true, Cands: it.Cands, CandObj: it.CandObj, MapObj: it.MapObj, Snap: it.Snap, Perm: it.Perm, Cur: []CurAlt{{TTrue, i + 1}}, Epoch: it.Epoch}
			continue
		}
		g := cand.G
		for j := i + 1; j < n && !g.IsFalse() && !it.Perm; j++ {
			if it.CandObj[j] != it.CandObj[i] {
				continue
			}
			g = And(g, Not(And(it.Cands[j].G, eqV(cand.K, it.Cands[j].K))))
		}
		var val Value
		if !g.IsFalse() {
			// under g no later snapshot entry rebinds the key, so the value is the candidate's own one unless the
			// loop body itself has written (or deleted) the key since the range started
			val = cand.V
			present := TTrue
			log := c.S.Heap[it.CandObj[i]].Log
			for _, en := range log[it.Snap[it.CandObj[i]]:] {
				hit := And(en.G, eqV(cand.K, en.K))
				if hit.IsFalse() {
					continue
				}
				if en.Tomb {
					present = And(present, Not(hit))
				} else {
					val = mergeV(hit, en.V, val)
					present = Or(present, hit)
				}
			}
			g = And(g, present)
		}
		c.S.Heap[itv.Obj] = &Obj{IsIter: true, Cands: it.Cands, CandObj: it.CandObj, MapObj: it.MapObj, Snap: it.Snap, Perm: it.Perm, Cur: []CurAlt{{TTrue, i + 1}}, Epoch: it.Epoch}
		if g.IsFalse() || And(c.S.PC, g).IsFalse() {
			continue
		}
		e.Forks++
		cA := c.fork(g)
		publish(cA, true, cand.K, val)
		cA.Prev = nil
		arr := e.execFrom(fr, cA, b, inner, k+1)
		rA := arr[b]
		for blk, x := range arr {
			if blk != b {
				esc = e.addArrival(esc, blk, x)
			}
		}
		if g.IsTrue() {
			if rA == nil {
				return nil, esc
			}
			c = rA
			continue
		}
		cB := c.fork(Not(g))
		if rA != nil {
			c = e.mergeCtx(g, rA, cB, nil)
		} else {
			c = cB
		}
		c.Prev = nil
	}
}

// distributable: pure string functions whose models need structured (roped / constant) arguments: a lazily merged
// string argument is split into its alternatives and the results are merged.
var distributable = map[string]bool{
	"path.Dir": true, "path.Base": true, "strings.Split": true, "strings.HasPrefix": true, "strings.TrimPrefix": true,
	"github.com/go-openapi/jsonpointer.Unescape": true, "github.com/go-openapi/jsonpointer.Escape": true,
	"net/url.PathUnescape": true, "github.com/go-openapi/spec.MustCreateRef": true, "strconv.Atoi": true,
	"strings.ToUpper": true, "strings.ToLower": true, "path.Ext": true,
	"github.com/go-openapi/swag.ToJSONName": true, "github.com/go-openapi/swag.ToGoName": true, "path.Join": true,
}

func (e *Engine) distribute(h func(*Engine, *Frame, *Ctx, []Value, *ssa.CallCommon) (Value, bool), fr *Frame, c *Ctx, args []Value, cc *ssa.CallCommon) (Value, bool, bool) {
	for i, a := range args {
		sv, ok := a.(StrV)
		if !ok || sv.B != nil || sv.Ch == nil {
			continue
		}
		call := func(x StrV) (Value, bool) {
			na := append([]Value(nil), args...)
			na[i] = x
			if v, alive, done := e.distribute(h, fr, c, na, cc); done {
				return v, alive
			}
			return h(e, fr, c, na, cc)
		}
		va, okA := call(sv.Ch.A)
		vb, okB := call(sv.Ch.B)
		switch {
		case okA && okB:
			if va == nil || vb == nil {
				return va, true, true
			}
			return mergeV(sv.Ch.C, va, vb), true, true
		case okA:
			return va, true, true
		case okB:
			return vb, true, true
		}
		return nil, false, true
	}
	return nil, false, false
}

// guardedSliceRange: `for _, v := range s` over a slice that is a guarded list (built by conditional appends) is run
// entry by entry, each body execution under the entry's presence guard with v bound to that entry's own value, instead
// of positionally (which would ite-merge all entries that may sit at a position). Applies only when the loop reads
// the elements (the index is used for element loads, comparisons and arithmetic, never for an element store).
// Returns (context after the loop at the header's exit edge, handled, arrivals elsewhere).
func (e *Engine) guardedSliceRange(fr *Frame, c *Ctx, b *ssa.BasicBlock, stops []*ssa.BasicBlock, nphi int) (*Ctx, bool, arrivals) {
	if len(b.Succs) != 2 {
		return nil, false, nil
	}
	inc, ok := b.Instrs[nphi].(*ssa.BinOp)
	if !ok || inc.Op != token.ADD {
		return nil, false, nil
	}
	phi, ok := inc.X.(*ssa.Phi)
	if !ok || phi.Comment != "rangeindex" || phi.Block() != b {
		return nil, false, nil
	}
	lss, ok := b.Instrs[nphi+1].(*ssa.BinOp)
	if !ok || lss.Op != token.LSS || lss.X != inc {
		return nil, false, nil
	}
	if _, ok := b.Instrs[nphi+2].(*ssa.If); !ok {
		return nil, false, nil
	}
	lenCall, ok := lss.Y.(*ssa.Call)
	if !ok {
		return nil, false, nil
	}
	if bi, ok := lenCall.Call.Value.(*ssa.Builtin); !ok || bi.Name() != "len" {
		return nil, false, nil
	}
	sliceReg := lenCall.Call.Args[0]
	sv, ok := c.Regs[sliceReg].(SliceV)
	if !ok || len(sv.Alts) == 0 {
		return dbgGSR(fr, 1)
	}
	// every alternative is nil or a list in list form; several alternatives are combined by append-event id (listView)
	objKey := -1
	for _, a := range sv.Alts {
		if a.G.IsFalse() {
			continue
		}
		if a.Obj < 0 {
			if len(sv.Alts) == 1 {
				return dbgGSR(fr, 2)
			}
			continue
		}
		ao := c.S.Heap[a.Obj]
		if a.Len.IsConst() && a.Len.val == 0 && len(sv.Alts) > 1 {
			continue // an empty alternative (e.g. the slice before the first append)
		}
		if a.Off != 0 || ao == nil || !ao.HasList || a.Len != listCount(ao.List) {
			return dbgGSR(fr, 3)
		}
		objKey = a.Obj
	}
	if objKey < 0 {
		return dbgGSR(fr, 4)
	}
	var list []ListEntry
	if len(sv.Alts) == 1 {
		list = c.S.Heap[objKey].List
	} else {
		st, isS := sliceReg.Type().Underlying().(*types.Slice)
		if !isS {
			return dbgGSR(fr, 5)
		}
		list = e.listView(c, sv, st.Elem())
		objKey = -2 - int(sliceReg.Pos()) // a key private to this slice value (several objects)
	}
	symbolic := false
	for _, en := range list {
		if !en.G.IsTrue() {
			symbolic = true
		}
	}
	if !symbolic {
		return dbgGSR(fr, 6)
	}
	// the index may only be used to read elements of this very slice
	for _, ref := range *inc.Referrers() {
		switch u := ref.(type) {
		case *ssa.Phi, *ssa.BinOp, *ssa.Convert, *ssa.MakeInterface, *ssa.DebugRef:
		case *ssa.IndexAddr:
			if u.X != sliceReg {
				return dbgGSR(fr, 7)
			}
			for _, r2 := range *u.Referrers() {
				if uo, ok := r2.(*ssa.UnOp); !ok || uo.Op != token.MUL {
					if _, dbg := r2.(*ssa.DebugRef); !dbg {
						return dbgGSR(fr, 8)
					}
				}
			}
		default:
			return dbgGSR(fr, 9)
		}
	}
	body, exit := b.Succs[0], b.Succs[1]
	inner := append(append([]*ssa.BasicBlock(nil), stops...), b)
	if !inStops(inner, exit) {
		inner = append(inner, exit)
	}
	if fr.listElem == nil {
		fr.listElem = map[ssa.Value]listElemRef{}
	}
	var esc arrivals
	var pos *Term = BV(64, 0)
	for _, en := range list {
		g := en.G
		if g.IsFalse() || And(c.S.PC, g).IsFalse() {
			continue
		}
		e.Forks++
		cA := c.fork(g)
		cA.Regs[phi] = IntV{Sub(pos, BV(64, 1))}
		cA.Regs[inc] = IntV{pos}
		cA.Regs[lss] = BoolV{TTrue}
		cA.Prev = b
		prev, had := fr.listElem[inc]
		fr.listElem[inc] = listElemRef{objKey, en, sliceReg}
		arr := e.execFrom(fr, cA, body, inner, -1)
		if had {
			fr.listElem[inc] = prev
		} else {
			delete(fr.listElem, inc)
		}
		rA := arr[b]
		for blk, x := range arr {
			if blk != b {
				esc = e.addArrival(esc, blk, x)
			}
		}
		pos = Add(pos, Ite(g, BV(64, 1), BV(64, 0)))
		if g.IsTrue() {
			if rA == nil {
				return nil, true, esc
			}
			c = rA
			continue
		}
		cB := c.fork(Not(g))
		if rA != nil {
			c = e.mergeCtx(g, rA, cB, nil)
		} else {
			c = cB
		}
		c.Prev = nil
	}
	c.Regs[phi] = IntV{Sub(pos, BV(64, 1))}
	c.Regs[inc] = IntV{pos}
	c.Regs[lss] = BoolV{TFalse}
	return c, true, esc
}

func dbgGSR(fr *Frame, why int) (*Ctx, bool, arrivals) {
	if DebugFlat {
		fmt.Printf("    [guarded-slice-range] not applied in %s: reason %d\n", fr.Fn.String(), why)
	}
	return nil, false, nil
}

// strLess: a < b (bytewise lexicographic), distributing over the alternatives of lazily merged strings
func strLess(a, b StrV) *Term {
	var la, lb []strAlt
	strAlts(a, TTrue, &la)
	strAlts(b, TTrue, &lb)
	if len(la) == 1 && len(lb) == 1 {
		return leafLess(la[0].S, lb[0].S)
	}
	var disj []*Term
	for _, x := range la {
		for _, y := range lb {
			g := And(x.G, y.G)
			if g.IsFalse() {
				continue
			}
			disj = append(disj, And(g, leafLess(x.S, y.S)))
		}
	}
	return Or(disj...)
}

func leafLess(a, b StrV) *Term {
	if ca, ok := a.Concrete(); ok {
		if cb, ok := b.Concrete(); ok {
			return BoolC(ca < cb)
		}
	}
	return lexLess(fl(a), fl(b))
}

var curSliceFn string

// showV: a short rendering of a value for debug output
func showV(v Value) string {
	switch x := v.(type) {
	case StrV:
		if cs, ok := x.Concrete(); ok {
			return fmt.Sprintf("%q", cs)
		}
		if x.B == nil && x.Ch != nil {
			var alts []strAlt
			strAlts(x, TTrue, &alts)
			out := "<choice"
			for _, a := range alts {
				out += " " + showV(a.S)
			}
			return out + ">"
		}
		return fmt.Sprintf("<string rope=%v>", x.R != nil)
	case IntV:
		if x.T.IsConst() {
			return fmt.Sprint(x.T.val)
		}
		return "<int>"
	case StructV:
		out := "{"
		for i, f := range x.F {
			if i > 0 {
				out += " "
			}
			out += showV(f)
		}
		return out + "}"
	}
	return fmt.Sprintf("<%T>", v)
}

func dbgGIC(why int) (*Ctx, arrivals, bool) {
	if DebugFlat {
		fmt.Printf("    [guarded-iter-call] reason %d\n", why)
	}
	return nil, nil, false
}
