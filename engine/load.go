package main

import (
	"fmt"
	"os"
	"path/filepath"
	"sort"
	"strings"

	"golang.org/x/tools/go/packages"
	"golang.org/x/tools/go/ssa"
	"golang.org/x/tools/go/ssa/ssautil"
)

// RepoDir is the repository under test: /repo for every registered check. SYMGO_REPO points the same checks at a
// scratch worktree (used only by /verif/tools/mutest.sh to try seeded changes without touching /repo).
var RepoDir = repoDir()

func repoDir() string {
	if d := os.Getenv("SYMGO_REPO"); d != "" {
		return d
	}
	return "/repo"
}

var HarnessDir = func() string {
	if d := os.Getenv("SYMGO_HARNESS"); d != "" {
		return d // development only (bisecting harness changes); registered commands never set it
	}
	return "/verif/harness"
}()

// harnessFiles lists the Go files of the harness directory (all are injected into package analysis).
func harnessFiles() []string {
	ents, err := os.ReadDir(HarnessDir)
	if err != nil {
		fatal("harness dir: %v", err)
	}
	var out []string
	for _, e := range ents {
		if strings.HasSuffix(e.Name(), ".go") {
			out = append(out, filepath.Join(HarnessDir, e.Name()))
		}
	}
	sort.Strings(out)
	return out
}

func fatal(f string, a ...interface{}) {
	fmt.Fprintf(os.Stderr, "symgo: "+f+"\n", a...)
	os.Exit(2)
}

// loadProgram loads /repo's current working tree plus the harness overlay and builds SSA for everything.
func loadProgram(extra []string) (*ssa.Program, *ssa.Package) {
	overlay := map[string][]byte{}
	files := harnessFiles()
	files = append(files, extra...)
	for _, f := range files {
		src, err := os.ReadFile(f)
		if err != nil {
			fatal("%v", err)
		}
		overlay[filepath.Join(RepoDir, "zz_vrf_"+filepath.Base(f))] = src
	}
	cfg := &packages.Config{Mode: packages.LoadAllSyntax, Dir: RepoDir,
		Env: append(os.Environ(), "GOFLAGS=-mod=mod", "GOPROXY=off", "GOSUMDB=off", "GOTOOLCHAIN=local")}
	cfg.Overlay = overlay
	pkgs, err := packages.Load(cfg, ".")
	if err != nil {
		fatal("load: %v", err)
	}
	if packages.PrintErrors(pkgs) > 0 {
		fatal("harness or repository does not type-check")
	}
	prog, spkgs := ssautil.AllPackages(pkgs, ssa.InstantiateGenerics)
	prog.Build()
	return prog, spkgs[0]
}
