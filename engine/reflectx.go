package main

import (
	"fmt"
	"go/types"
	"reflect"
	"strings"

	"golang.org/x/tools/go/ssa"
)

// abstract error type: we need some types.Type implementing error; use a synthetic named type.
var absErrType types.Type

func init() {
	pkg := types.NewPackage("vrf", "vrf")
	tn := types.NewTypeName(0, pkg, "abstractError", nil)
	named := types.NewNamed(tn, types.NewStruct(nil, nil), nil)
	sig := types.NewSignatureType(types.NewVar(0, pkg, "e", named), nil, nil, nil,
		types.NewTuple(types.NewVar(0, pkg, "", types.Typ[types.String])), false)
	named.AddMethod(types.NewFunc(0, pkg, "Error", sig))
	absErrType = named
}

func mkErr(msg StrV) IfaceV {
	return IfaceV{[]IfaceAlt{{G: TTrue, Typ: absErrType, V: AbsErr{msg}}}}
}

// jsonNameIndex mirrors swag.buildnameIndex: json name -> field path (embedded structs walked)
func jsonNameIndex(st *types.Struct, prefix []int, idx map[string][]int) {
	for i := 0; i < st.NumFields(); i++ {
		f := st.Field(i)
		if !f.Exported() {
			continue
		}
		p := append(append([]int(nil), prefix...), i)
		if f.Anonymous() {
			if es, ok := f.Type().Underlying().(*types.Struct); ok {
				jsonNameIndex(es, p, idx)
			}
			continue
		}
		tag := reflect.StructTag(st.Tag(i)).Get("json")
		if tag == "" {
			continue
		}
		nm := strings.Split(tag, ",")[0]
		if nm == "-" {
			continue
		}
		if nm == "" {
			nm = f.Name()
		}
		idx[nm] = p
	}
}

func fieldTypeAt(t types.Type, path []int) types.Type {
	for _, i := range path {
		t = t.Underlying().(*types.Struct).Field(i).Type()
	}
	return t
}

var jsonPointable *types.Interface

// getSingle implements jsonpointer.getSingleImpl(node any, decodedToken string, nameProvider) (any, reflect.Kind, error)
// over executor values. Returns a TupleV{any, kind, error}.
func (e *Engine) getSingle(fr *Frame, c *Ctx, node IfaceV, tok StrV) Value {
	kindZero := IntV{BV(64, 0)}
	died := false
	var res Value
	add := func(g *Term, v Value) {
		if g.IsFalse() {
			return
		}
		if res == nil {
			res = v
		} else {
			res = mergeV(g, v, res)
		}
	}
	errT := func(msg string) Value {
		return TupleV{[]Value{nilIface(), kindZero, mkErr(strConcat(StrC(msg), tok))}}
	}
	okT := func(t types.Type, v Value) Value {
		return TupleV{[]Value{IfaceV{[]IfaceAlt{{G: TTrue, Typ: t, V: v}}}, kindZero, nilIface()}}
	}
	for _, a := range node.Alts {
		if a.G.IsFalse() {
			continue
		}
		if a.Typ == nil {
			add(a.G, errT("nil value has no field "))
			continue
		}
		// isNil(node) for pointers/maps/slices
		t := a.Typ
		val := a.V
		nilG := TFalse
		if p, ok := val.(PtrV); ok {
			// indirect
			var inner Value
			for _, pa := range p.Alts {
				if pa.Obj == -1 {
					nilG = Or(nilG, pa.G)
					continue
				}
				iv := getPath(c.S.Heap[pa.Obj].Val, pa.Path)
				if inner == nil {
					inner = iv
				} else {
					inner = mergeV(pa.G, iv, inner)
				}
			}
			add(And(a.G, nilG), errT("nil value has no field "))
			if inner == nil {
				continue
			}
			val = inner
			// JSONPointable dispatch uses the original (pointer) type's method set
		}
		g := And(a.G, Not(nilG))
		if g.IsFalse() {
			continue
		}
		// JSONPointable?
		var fn *ssa.Function
		if sel := e.prog.MethodSets.MethodSet(t).Lookup(nil, "JSONLookup"); sel != nil {
			fn = e.prog.MethodValue(sel)
		}
		if fn != nil {
			cx := c.fork(g)
			recv := a.V
			// method may have value receiver while we hold pointer (or vice versa): LookupMethod returns wrapper accepting t
			rv, nc := e.call(fr, cx, fn, []Value{recv, tok}, nil)
			if nc == nil {
				died = true
			}
			if nc != nil {
				c.S.Heap = mergeHeaps(e, g, nc.S.Heap, c.S.Heap)
				tv := rv.(TupleV)
				// (r, err): if err != nil -> (nil, kind, err) else (r, kind, nil)
				errV := tv.E[1].(IfaceV)
				isErr := Not(eqV(errV, nilIface()))
				out := mergeV(isErr, TupleV{[]Value{nilIface(), kindZero, errV}}, TupleV{[]Value{tv.E[0], kindZero, nilIface()}})
				add(g, out)
			}
			continue
		}
		if p, ok := t.(*types.Pointer); ok {
			t = p.Elem()
		}
		switch u := t.Underlying().(type) {
		case *types.Struct:
			idx := map[string][]int{}
			jsonNameIndex(u, nil, idx)
			var r Value = errT("object has no field ")
			for name, path := range idx {
				hit := eqV(tok, StrC(name))
				if hit.IsFalse() {
					continue
				}
				fv := getPath(val, path)
				r = mergeV(hit, okT(fieldTypeAt(t, path), fv), r)
			}
			add(g, r)
		case *types.Map:
			mv := val.(MapV)
			v, ok := e.mapLookup(c, mv, tok, u.Elem())
			add(g, mergeV(ok, okT(u.Elem(), v), errT("object has no key ")))
		case *types.Slice:
			sv := val.(SliceV)
			var r Value = errT("index out of bounds ")
			if s, okc := tok.Concrete(); okc {
				n := 0
				for _, ch := range s {
					if ch < '0' || ch > '9' {
						n = -1
						break
					}
					n = n*10 + int(ch-'0')
				}
				if s == "" {
					n = -1
				}
				for _, sa := range sv.Alts {
					if sa.Obj == -1 || n < 0 || n >= sa.Cap {
						continue
					}
					inb := And(sa.G, Ult(BV(64, uint64(n)), sa.Len))
					el := e.arr(c, sa.Obj).E[sa.Off+n]
					r = mergeV(inb, okT(u.Elem(), el), r)
				}
			} else {
				// symbolic token: it designates element n iff it is the canonical decimal rendering of n
				// (non-canonical renderings such as "01" or "+1", which strconv.Atoi accepts, are treated as errors)
				for _, sa := range sv.Alts {
					if sa.Obj == -1 {
						continue
					}
					arr := e.arr(c, sa.Obj)
					for n := 0; n < sa.Cap && sa.Off+n < len(arr.E); n++ {
						hit := And(sa.G, eqV(tok, StrC(fmt.Sprint(n))), Ult(BV(64, uint64(n)), sa.Len))
						if hit.IsFalse() {
							continue
						}
						r = mergeV(hit, okT(u.Elem(), arr.E[sa.Off+n]), r)
					}
				}
			}
			add(g, r)
		default:
			add(g, errT("invalid token reference "))
		}
	}
	if res == nil {
		if died {
			return nil // every path ended inside JSONLookup (panic or unwinding limit): this path is dead
		}
		return errT("unreachable ")
	}
	return res
}

func jsonPointableOK(t types.Type) bool { return true }

func mergeHeaps(e *Engine, g *Term, a, b map[int]*Obj) map[int]*Obj {
	h := make(map[int]*Obj, len(a))
	for id, oa := range a {
		if ob, ok := b[id]; ok {
			h[id] = e.mergeObj(g, oa, ob)
		} else {
			h[id] = oa
		}
	}
	for id, ob := range b {
		if _, ok := a[id]; !ok {
			h[id] = ob
		}
	}
	return h
}

// reflect.Value is represented as the zero struct of its type with field 0 replaced by the wrapped executor value;
// *reflect.MapIter as a heap cell {0: map iterator, 1: current (key, value)}. Only the few reflect functions used by
// sortref.mustMapIterator are modelled.
func reflectValue(t types.Type, payload Value) Value {
	z := zero(t).(StructV)
	f := append([]Value(nil), z.F...)
	f[0] = payload
	return StructV{f}
}

func installReflectMaps(e *Engine) {
	e.intercept["reflect.ValueOf"] = func(e *Engine, fr *Frame, c *Ctx, a []Value, cc *ssa.CallCommon) (Value, bool) {
		return reflectValue(cc.Signature().Results().At(0).Type(), a[0]), true
	}
	mapOf := func(v Value) MapV {
		iv, ok := v.(StructV).F[0].(IfaceV)
		if !ok || len(iv.Alts) != 1 {
			unsup("reflect model: Value does not wrap a single-typed interface value")
		}
		mv, ok := iv.Alts[0].V.(MapV)
		if !ok {
			unsup("reflect model: Value does not wrap a map")
		}
		return mv
	}
	e.intercept["(reflect.Value).Len"] = func(e *Engine, fr *Frame, c *Ctx, a []Value, cc *ssa.CallCommon) (Value, bool) {
		return IntV{e.mapLen(c, mapOf(a[0]))}, true
	}
	e.intercept["(reflect.Value).MapRange"] = func(e *Engine, fr *Frame, c *Ctx, a []Value, cc *ssa.CallCommon) (Value, bool) {
		it := e.rangeMap(c, mapOf(a[0]))
		id := e.newObj(c, &Obj{Val: StructV{[]Value{it, TupleV{}}}})
		return PtrV{[]PtrAlt{{G: TTrue, Obj: id}}}, true
	}
	e.intercept["(*reflect.MapIter).Next"] = func(e *Engine, fr *Frame, c *Ctx, a []Value, cc *ssa.CallCommon) (Value, bool) {
		p := a[0].(PtrV)
		if len(p.Alts) != 1 || p.Alts[0].Obj < 0 {
			unsup("reflect model: MapIter pointer with alternatives")
		}
		cell := c.S.Heap[p.Alts[0].Obj].Val.(StructV)
		itv := cell.F[0].(IterV)
		// key and element types: from the first candidate (string keys in the code under test)
		it := c.S.Heap[itv.Obj]
		var kz, vz Value = StrC(""), nil
		for _, cd := range it.Cands {
			if !cd.Tomb {
				vz = cd.V
				break
			}
		}
		tup := e.nextMapZ(c, itv, kz, vz)
		c.S.Heap[p.Alts[0].Obj] = &Obj{Val: StructV{[]Value{itv, tup}}, Epoch: c.S.Heap[p.Alts[0].Obj].Epoch}
		return tup.E[0], true
	}
	e.intercept["(*reflect.MapIter).Key"] = func(e *Engine, fr *Frame, c *Ctx, a []Value, cc *ssa.CallCommon) (Value, bool) {
		p := a[0].(PtrV)
		cell := c.S.Heap[p.Alts[0].Obj].Val.(StructV)
		return reflectValue(cc.Signature().Results().At(0).Type(), cell.F[1].(TupleV).E[1]), true
	}
	e.intercept["(reflect.Value).String"] = func(e *Engine, fr *Frame, c *Ctx, a []Value, cc *ssa.CallCommon) (Value, bool) {
		s, ok := a[0].(StructV).F[0].(StrV)
		if !ok {
			unsup("reflect model: String of a non-string Value")
		}
		return s, true
	}
}

func installReflect(e *Engine) {
	installReflectMaps(e)
	e.intercept["encoding/json.Marshal"] = func(e *Engine, fr *Frame, c *Ctx, a []Value, _ *ssa.CallCommon) (Value, bool) {
		if !e.feasible(c.S.PC) {
			return nil, false // dead path (e.g. an impossible alternative of a dynamic type)
		}
		iv := a[0].(IfaceV)
		var ts []string
		for _, al := range iv.Alts {
			if al.Typ != nil {
				ts = append(ts, al.Typ.String())
			} else {
				ts = append(ts, "nil")
			}
		}
		unsup("encoding/json.Marshal is not modelled (called from %s with a value of type %s)", fr.Fn.String(), strings.Join(ts, " | "))
		return nil, false
	}
	jp := "github.com/go-openapi/jsonpointer."
	e.intercept[jp+"getSingleImpl"] = func(e *Engine, fr *Frame, c *Ctx, a []Value, _ *ssa.CallCommon) (Value, bool) {
		v := e.getSingle(fr, c, a[0].(IfaceV), a[1].(StrV))
		return v, v != nil
	}
	// errors / fmt
	e.intercept["fmt.Errorf"] = func(e *Engine, fr *Frame, c *Ctx, a []Value, _ *ssa.CallCommon) (Value, bool) {
		return mkErr(a[0].(StrV)), true
	}
	e.intercept["errors.New"] = func(e *Engine, fr *Frame, c *Ctx, a []Value, _ *ssa.CallCommon) (Value, bool) {
		return mkErr(a[0].(StrV)), true
	}
	e.intercept["errors.Join"] = func(e *Engine, fr *Frame, c *Ctx, a []Value, _ *ssa.CallCommon) (Value, bool) {
		return mkErr(StrC("joined error")), true
	}
	e.intercept["reflect.DeepEqual"] = func(e *Engine, fr *Frame, c *Ctx, a []Value, _ *ssa.CallCommon) (Value, bool) {
		return BoolV{e.deepEqual(c, a[0], a[1], map[[2]int]bool{})}, true
	}
	e.intercept["fmt.Sprintf"] = func(e *Engine, fr *Frame, c *Ctx, a []Value, _ *ssa.CallCommon) (Value, bool) {
		f, ok := a[0].(StrV).Concrete()
		if !ok {
			unsup("Sprintf with symbolic format")
		}
		sl := a[1].(SliceV).Alts[0]
		var args []Value
		if sl.Obj != -1 {
			arr := e.arr(c, sl.Obj)
			for i := 0; i < int(sl.Len.val); i++ {
				args = append(args, arr.E[sl.Off+i])
			}
		}
		out := StrC("")
		ai := 0
		for i := 0; i < len(f); i++ {
			if f[i] != '%' || i+1 >= len(f) {
				out = strConcat(out, StrC(f[i:i+1]))
				continue
			}
			i++
			switch f[i] {
			case '%':
				out = strConcat(out, StrC("%"))
			case 'v', 's', 'd':
				iv := args[ai].(IfaceV)
				ai++
				if len(iv.Alts) != 1 {
					unsup("Sprintf arg with several dynamic types")
				}
				switch v := iv.Alts[0].V.(type) {
				case StrV:
					out = strConcat(out, v)
				case IntV:
					if !v.T.IsConst() {
						unsup("Sprintf of symbolic int")
					}
					out = strConcat(out, StrC(fmt.Sprint(int64(v.T.val))))
				default:
					out = strConcat(out, StrC("?"))
				}
			default:
				unsup("Sprintf verb %c", f[i])
			}
		}
		return out, true
	}
}
