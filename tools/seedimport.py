#!/usr/bin/env python3
"""Import the deliverables of a mutant agent (/tmp/mut/<ID>-<x>/_out) into /verif/seeded/<ID>-<x><k>/ and confirm them on a
scratch worktree of /repo's current HEAD: suite unchanged with the patch, demo fails with it and passes without it."""
import sys,os,shutil,subprocess,json,glob,re
src=sys.argv[1]            # e.g. /tmp/mut/C11-a
tag=os.path.basename(src.rstrip('/'))   # C11-a
prop=tag.split('-')[0]
out=os.path.join(src,'_out')
env=dict(os.environ,GOFLAGS='-mod=mod',GOPROXY='off',GOSUMDB='off')
def sh(cmd,cwd=None,**kw): return subprocess.run(cmd,shell=True,cwd=cwd,capture_output=True,text=True,env=env,**kw)
for diff in sorted(glob.glob(out+'/change*.diff')):
    k=re.search(r'change(\d+)\.diff',diff).group(1)
    sid=f'{tag}{k}'
    dst=f'/verif/seeded/{sid}'
    os.makedirs(dst,exist_ok=True)
    shutil.copy(diff,dst+'/patch.diff')
    demo=out+f'/demo{k}_test.go'
    shutil.copy(demo,dst+'/demo_test.go')
    if os.path.exists(out+f'/notes{k}.md'): shutil.copy(out+f'/notes{k}.md',dst+'/notes.md')
    wt=f'/tmp/seedwt-{sid}'
    sh(f'git -C /repo worktree remove --force {wt}')
    r=sh(f'git -C /repo worktree add -q --detach {wt} HEAD'); assert r.returncode==0,r.stderr
    res={'id':sid,'property':prop,'base_commit':sh('git -C /repo rev-parse --short HEAD').stdout.strip()}
    try:
        shutil.copy(dst+'/demo_test.go',wt+f'/zz_demo_{sid.replace("-","_")}_test.go')
        names=re.findall(r'^func (Test\w+)\(',open(dst+'/demo_test.go').read(),re.M)
        runpat='^('+'|'.join(names)+')$'
        r0=sh(f"go test -vet=off -count=1 -run '{runpat}' .",cwd=wt)
        res['demo_without_patch']='pass' if r0.returncode==0 else 'FAIL'
        r=sh(f'git apply {dst}/patch.diff',cwd=wt)
        if r.returncode!=0:
            r=sh(f'git apply -3 {dst}/patch.diff',cwd=wt)
        res['patch_applies']=r.returncode==0
        if r.returncode==0:
            r1=sh(f"go test -vet=off -count=1 -run '{runpat}' .",cwd=wt)
            res['demo_with_patch']='pass' if r1.returncode==0 else 'fail'
            os.remove(wt+f'/zz_demo_{sid.replace("-","_")}_test.go')
            r2=sh(f'/verif/tools/repotest.py {wt}')
            res['suite_with_patch']=r2.stdout.strip().splitlines()[0] if r2.stdout else r2.stderr[-300:]
            res['suite_ok']=r2.returncode==0
        res['confirmed']=bool(res.get('patch_applies') and res.get('demo_without_patch')=='pass' and res.get('demo_with_patch')=='fail' and res.get('suite_ok'))
        res['ran']=["go test -run <demo> . (without patch)","git apply patch.diff","go test -run <demo> . (with patch)","/verif/tools/repotest.py <worktree> (with patch)"]
    finally:
        sh(f'git -C /repo worktree remove --force {wt}')
        shutil.rmtree(wt,ignore_errors=True)
    meta=dst+'/meta.json'
    old=json.load(open(meta)) if os.path.exists(meta) else {}
    old.update(res)
    json.dump(old,open(meta,'w'),indent=1)
    print(sid,res)
