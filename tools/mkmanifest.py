#!/usr/bin/env python3
import json
V='/verif'
props=[json.loads(l) for l in open(V+'/properties.jsonl')]
checks=json.load(open(V+'/checks.json'))
meta=json.load(open(V+'/tools/manifest_meta.json'))
na=json.load(open(V+'/tools/not_applicable.json'))
m={"version":1,
"setup_cmd":"cd /verif/engine && GOFLAGS=-mod=mod GOPROXY=off GOSUMDB=off GOTOOLCHAIN=local go build -o /verif/bin/symgo . && /verif/bin/symgo selftest",
"hooks":{"guard":"verif","enable":"none needed: harnesses (/verif/harness/*.go, package analysis) are injected through the go/packages overlay for symbolic execution and through `go test -overlay` for native replay; nothing is written to /repo and no hook commit exists","baseline_off_cmd":"/verif/tools/repotest.py /repo","source_commits":[],"add_only":True},
"engines":[{"name":"symgo","path":"/verif/engine","serves_properties":sorted(checks.keys()),"kind_free_text":"SSA-to-SMT (QF_BV) bounded symbolic executor for Go with state merging at post-dominators; z3 5.1 decides every obligation, z3 4.8.12 + cvc5 cross-check in the thorough tier; every sat model is replayed against the natively compiled real code before it is reported"}],
"checks":[],"not_applicable":[]}
for p in props:
    i=p['id']
    if i in checks and i in meta:
        mm=meta[i]
        m['checks'].append({"property_id":i,
          "quick_cmd":f"/verif/bin/symgo check --prop {i} --tier quick",
          "thorough_cmd":f"/verif/bin/symgo check --prop {i} --tier thorough",
          "evidence_file":f"/verif/evidence/{i}.json",
          "replay_cmd_template":f"/verif/bin/symgo replay --prop {i} {{path}}",
          "engine":"symgo",
          "level_claimed":{"category":"model_checking","text":mm['text'],"design_ref":mm.get('design_ref','5')},
          "level_note":mm['note'],"technique":mm['technique']})
    else:
        m['not_applicable'].append({"property_id":i,"reason":na.get(i,"check not built yet in this session (see DESIGN.md section 2 for the planned verdict)")})
json.dump(m,open(V+'/MANIFEST.json','w'),indent=1)
print('checks',len(m['checks']),'n/a',len(m['not_applicable']))
