#!/usr/bin/env python3
"""Run the repository's pinned suite (guard off) in DIR (default /repo) and compare with BASELINE.json's stable_pass set."""
import json,subprocess,sys,os
d=sys.argv[1] if len(sys.argv)>1 else '/repo'
base=json.load(open('/root/.vp/BASELINE.json'))
want=set(base['stable_pass'])
passed=set();failed=set()
for mod in ['.','./analysis_test']:
    env=dict(os.environ,GOFLAGS='-mod=mod',GOPROXY='off',GOSUMDB='off')
    p=subprocess.run(['go','test','-json','-vet=off','-count=1','-timeout','25m','./...'],cwd=os.path.join(d,mod),env=env,capture_output=True,text=True)
    for line in p.stdout.splitlines():
        try: ev=json.loads(line)
        except Exception: continue
        if ev.get('Test') and ev.get('Action') in('pass','fail'):
            k=ev['Package']+'::'+ev['Test']
            (passed if ev['Action']=='pass' else failed).add(k)
missing=sorted(want-passed)
print(f'passed {len(passed)} failed {len(failed)} baseline {len(want)} missing-from-baseline {len(missing)}')
for m in missing[:20]: print('  MISSING',m)
for f in sorted(failed-set(base['always_fail']))[:20]: print('  NEWFAIL',f)
subprocess.run(['git','checkout','--','analysis_test/go.mod','analysis_test/go.sum','go.mod','go.sum'],cwd=d,capture_output=True)
sys.exit(1 if missing else 0)
