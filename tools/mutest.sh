#!/bin/bash
# usage: mutest.sh <seeded-id> <prop> [<prop>...]: apply /verif/seeded/<id>/patch.diff to /repo, run the checks, revert.
id=$1; shift
cd /repo || exit 2
if ! git diff --quiet; then echo "/repo has uncommitted changes"; exit 2; fi
if ! git apply /verif/seeded/$id/patch.diff 2>/dev/null; then
  echo "== mutant $id: patch does not apply to the current tree (the code it changes was repaired since)"; exit 2
fi
for p in "$@"; do
  out=$(/verif/bin/symgo check --prop $p --tier ${TIER:-quick} 2>&1); rc=$?
  echo "== mutant $id vs $p: exit $rc; $(echo "$out" | grep -c '^VIOLATION') VIOLATION lines; $(echo "$out" | grep -c '^BROKEN') BROKEN lines"
  echo "$out" | grep "^VIOLATION\|^BROKEN" | head -3 | cut -c1-300
done
git -C /repo checkout -- . ; git -C /repo status --short | head -3
