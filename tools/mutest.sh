#!/bin/bash
# usage: mutest.sh <seeded-id> <prop> [<prop>...]
# Tries one seeded change against the quick (TIER=thorough: thorough) checks. By default the change is applied to a
# scratch worktree of /repo's HEAD and the checks are pointed at it (SYMGO_REPO), so /repo itself is never touched;
# with INPLACE=1 it is applied to /repo (git -C /repo apply), checked, and undone (git -C /repo checkout -- .).
id=$1; shift
if [ -n "$INPLACE" ]; then
  wt=/repo
  cd /repo || exit 2
  if ! git diff --quiet; then echo "/repo has uncommitted changes"; exit 2; fi
else
  wt=/tmp/mutwt-$id-$$
  git -C /repo worktree add -q --detach $wt HEAD || exit 2
fi
cleanup() { if [ -n "$INPLACE" ]; then git -C /repo checkout -- . ; else git -C /repo worktree remove --force $wt; fi; }
if ! git -C $wt apply /verif/seeded/$id/patch.diff 2>/dev/null; then
  echo "== mutant $id: patch does not apply to the current tree (the code it changes was repaired since)"; cleanup; exit 2
fi
for p in "$@"; do
  out=$(SYMGO_REPO=$wt SYMGO_EVIDENCE_DIR=/tmp/mutev-$id /verif/bin/symgo check --prop $p --tier ${TIER:-quick} 2>&1); rc=$?
  echo "== mutant $id vs $p: exit $rc; $(echo "$out" | grep -c '^VIOLATION') VIOLATION lines; $(echo "$out" | grep -c '^BROKEN') BROKEN lines"
  echo "$out" | grep "^VIOLATION\|^BROKEN" | head -3 | cut -c1-300
done
cleanup; rm -rf /tmp/mutev-$id
