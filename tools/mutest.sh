#!/bin/bash
# usage: mutest.sh <seeded-id> <prop> [<prop>...]: apply /verif/seeded/<id>/patch.diff to /repo, run the quick checks, revert.
id=$1; shift
cd /repo || exit 2
if ! git diff --quiet; then echo "/repo has uncommitted changes"; exit 2; fi
git apply /verif/seeded/$id/patch.diff || git apply -3 /verif/seeded/$id/patch.diff || { echo "patch does not apply"; exit 2; }
for p in "$@"; do
  out=$(/verif/bin/symgo check --prop $p --tier ${TIER:-quick} 2>&1); rc=$?
  echo "== mutant $id vs $p: exit $rc; $(echo "$out" | grep -c '^VIOLATION') VIOLATION lines; $(echo "$out" | grep -c '^BROKEN') BROKEN lines"
  echo "$out" | grep "^VIOLATION\|^BROKEN" | head -3 | cut -c1-300
done
git -C /repo checkout -- . ; git -C /repo status --short | head -3
