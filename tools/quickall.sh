#!/bin/bash
# usage: quickall.sh [tier] [props...]   runs the registered checks (evidence to a scratch dir unless REAL=1), prints one line per property
tier=${1:-quick}; shift
props=${@:-$(python3 -c "import json; print(' '.join(sorted(json.load(open('/verif/checks.json')).keys())))")}
for p in $props; do
  s=$(date +%s)
  if [ -n "$REAL" ]; then out=$(timeout 7500 /verif/bin/symgo check --prop $p --tier $tier 2>&1); rc=$?
  else out=$(SYMGO_EVIDENCE_DIR=/tmp/qall-ev timeout 7500 /verif/bin/symgo check --prop $p --tier $tier 2>&1); rc=$?; fi
  e=$(date +%s)
  echo "== $p $tier: exit $rc in $((e-s))s; $(echo "$out" | grep "^$p $tier" | cut -c1-200)"
  echo "$out" | grep "^VIOLATION\|^BROKEN\|^KNOWN" | head -4 | cut -c1-300
done
[ -z "$REAL" ] && rm -rf /tmp/qall-ev
