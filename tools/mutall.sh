#!/bin/bash
# run every seeded change of the given properties against that property's quick check; results appended to /verif/seeded/RESULTS.txt
for p in "$@"; do
  for d in /verif/seeded/$p-*; do
    id=$(basename $d)
    timeout 1500 /verif/tools/mutest.sh $id $p 2>&1 | grep "^== mutant" | tee -a /verif/seeded/RESULTS.txt
    git -C /repo checkout -- . 2>/dev/null
  done
done
