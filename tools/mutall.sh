#!/bin/bash
# usage: mutall.sh [props...]   runs every seeded change of the given properties (default: all) against that property's
# quick check on scratch worktrees (tools/mutest.sh), three at a time; rewrites /verif/seeded/RESULTS.txt
props=${@:-$(ls /verif/seeded | grep -o "^C[0-9]*" | sort -u)}
tmp=$(mktemp -d /tmp/mutall.XXXXXX)
for p in $props; do
  for d in /verif/seeded/$p-*; do echo "$(basename $d) $p"; done
done | xargs -P 3 -L 1 sh -c 'timeout 2400 /verif/tools/mutest.sh $0 $1 2>&1 | grep "^== mutant" > '"$tmp"'/$0.txt'
if [ $# -eq 0 ]; then : > /verif/seeded/RESULTS.txt; fi
cat $tmp/*.txt >> /verif/seeded/RESULTS.txt
sort -u -o /verif/seeded/RESULTS.txt /verif/seeded/RESULTS.txt
rm -rf $tmp
