#!/bin/bash
# run every seeded mutant of the given properties against that property's quick check; results appended to /verif/seeded/RESULTS.txt
for p in "$@"; do
  for d in /verif/seeded/$p-*; do
    id=$(basename $d)
    /verif/tools/mutest.sh $id $p 2>&1 | grep "^== mutant" | tee -a /verif/seeded/RESULTS.txt
  done
done
