package analysis

import (
	"errors"

	"github.com/go-openapi/spec"
)

// C20: schema classification is consistent, $ref-transparent and terminates.

var _ = vrfRegister("vrfH_C20", vrfH_C20)
var _ = vrfRegister("vrfH_C20self", vrfH_C20self)

// Go model of spec.ExpandSchema(&Schema{Ref: r}, root, nil) for local refs: resolve, deep-copy, expand nested local
// refs, leaving a $ref that is already being expanded (circular) in place. Substituted for the real function by the
// executor; the native replay runs the real spec.ExpandSchema.
func vrfModelExpandSchema(sch *spec.Schema, root interface{}, cache spec.ResolutionCache) error {
	return vrfExpand(sch, root, nil, 0)
}

func vrfExpand(sch *spec.Schema, root interface{}, parents []string, depth int) error {
	if depth > 6 {
		return errors.New("vrfExpand: nesting beyond the model's bound")
	}
	if sch.Ref.String() != "" {
		r := sch.Ref.String()
		for _, p := range parents {
			if p == r {
				return nil // circular: left as $ref
			}
		}
		v, _, err := sch.Ref.GetPointer().Get(root)
		if err != nil {
			return err
		}
		var t spec.Schema
		switch x := v.(type) {
		case spec.Schema:
			t = x
		case *spec.Schema:
			t = *x
		default:
			return errors.New("not a schema")
		}
		t = vrfDeepCopy(t).(spec.Schema)
		if err := vrfExpand(&t, root, append(parents, r), depth+1); err != nil {
			return err
		}
		*sch = t
		return nil
	}
	if sch.Items != nil {
		if sch.Items.Schema != nil {
			if err := vrfExpand(sch.Items.Schema, root, parents, depth+1); err != nil {
				return err
			}
		}
		for i := range sch.Items.Schemas {
			if err := vrfExpand(&sch.Items.Schemas[i], root, parents, depth+1); err != nil {
				return err
			}
		}
	}
	if sch.AdditionalProperties != nil && sch.AdditionalProperties.Schema != nil {
		if err := vrfExpand(sch.AdditionalProperties.Schema, root, parents, depth+1); err != nil {
			return err
		}
	}
	if sch.AdditionalItems != nil && sch.AdditionalItems.Schema != nil {
		if err := vrfExpand(sch.AdditionalItems.Schema, root, parents, depth+1); err != nil {
			return err
		}
	}
	for i := range sch.AllOf {
		if err := vrfExpand(&sch.AllOf[i], root, parents, depth+1); err != nil {
			return err
		}
	}
	for k, v := range sch.Properties {
		v := v
		if err := vrfExpand(&v, root, parents, depth+1); err != nil {
			return err
		}
		sch.Properties[k] = v
	}
	return nil
}

var c20Types = []string{"object", "array", "string", "integer", "number", "boolean", ""}
var c20Formats = []string{"", "date", "x-unknown"}

// c20Schema: a schema from the grammar of C20 (primitive, formatted, enum, object, map, array, tuple with/without
// additionalItems, allOf, discriminator, $ref). refs: how many root definitions ("d0", "d1", ...) may be referenced.
func c20Schema(tag string, depth int, refs int) spec.Schema {
	var s spec.Schema
	kind := 0
	if tk := vrfParam("topkind", -1); tk >= 0 && tag == "s" {
		kind = tk // the category of the schema under analysis is fixed per run; everything below it is symbolic
	} else if depth > 0 {
		kind = vrfInt(tag+".kind", 0, 4)
	} else {
		// leaves: primitive, (empty) object / map of anything, or $ref
		switch vrfInt(tag+".leafkind", 0, 2) {
		case 1:
			kind = 1
		case 2:
			kind = 4
		}
	}
	switch kind {
	case 0: // primitive, possibly formatted, possibly an enum
		s.Type = spec.StringOrArray{c20Types[2+vrfInt(tag+".type", 0, 3)]}
		s.Format = c20Formats[vrfInt(tag+".format", 0, 2)]
		if vrfBool(tag + ".enum") {
			s.Enum = []interface{}{"e"}
		}
	case 1: // object: explicit type, no type, or the empty type; properties / allOf / additionalProperties / discriminator
		switch vrfInt(tag+".objtype", 0, 2) {
		case 0:
			s.Type = spec.StringOrArray{"object"}
		case 1:
			s.Type = spec.StringOrArray{""}
		}
		if vrfBool(tag + ".discriminator") {
			s.Discriminator = "kind"
		}
		if depth > 0 && vrfBool(tag+".props") {
			s.Properties = map[string]spec.Schema{"p": c20Schema(tag+".p", depth-1, refs)}
		}
		if depth > 0 && vrfBool(tag+".allof") {
			s.AllOf = []spec.Schema{c20Schema(tag+".allof0", depth-1, refs)}
		}
		if vrfBool(tag + ".addp") {
			if depth > 0 && vrfBool(tag+".addp.schema") {
				ap := c20Schema(tag+".addp", depth-1, refs)
				s.AdditionalProperties = &spec.SchemaOrBool{Allows: true, Schema: &ap}
			} else {
				s.AdditionalProperties = &spec.SchemaOrBool{Allows: vrfBool(tag + ".addp.allows")}
			}
		}
	case 2: // array
		s.Type = spec.StringOrArray{"array"}
		if vrfBool(tag + ".items") {
			it := c20Schema(tag+".items", depth-1, refs)
			s.Items = &spec.SchemaOrArray{Schema: &it}
		}
	case 3: // tuple, with or without additionalItems
		s.Type = spec.StringOrArray{"array"}
		s.Items = &spec.SchemaOrArray{Schemas: []spec.Schema{c20Schema(tag+".t0", depth-1, refs)}}
		if vrfBool(tag + ".addi") {
			if vrfBool(tag + ".addi.schema") {
				ai := c20Schema(tag+".addi", depth-1, refs)
				s.AdditionalItems = &spec.SchemaOrBool{Allows: true, Schema: &ai}
			} else {
				s.AdditionalItems = &spec.SchemaOrBool{Allows: vrfBool(tag + ".addi.allows")}
			}
		}
	case 4: // $ref to a root definition (a primitive when there is none)
		if refs > 0 {
			s.Ref = spec.MustCreateRef("#/definitions/d" + itoaSmall(vrfInt(tag+".target", 0, refs-1)))
		} else {
			s.Type = spec.StringOrArray{"string"}
		}
	}
	return s
}

func c20Coherent(id string, a *AnalyzedSchema) {
	vrfAssert(id+": simple-schema == known-type || simple-array || simple-map", a.IsSimpleSchema == (a.IsKnownType || a.IsSimpleArray || a.IsSimpleMap))
	vrfAssert(id+": simple-array implies array", !a.IsSimpleArray || a.IsArray)
	vrfAssert(id+": simple-map implies map", !a.IsSimpleMap || a.IsMap)
	vrfAssert(id+": map and extended-object exclusive", !(a.IsMap && a.IsExtendedObject))
	vrfAssert(id+": tuple and tuple-with-extra exclusive", !(a.IsTuple && a.IsTupleWithExtra))
	vrfAssert(id+": array and tuple exclusive", !(a.IsArray && (a.IsTuple || a.IsTupleWithExtra)))
}

func c20Flags(a *AnalyzedSchema) [11]bool {
	return [11]bool{a.IsKnownType, a.IsSimpleSchema, a.IsArray, a.IsSimpleArray, a.IsMap, a.IsSimpleMap, a.IsExtendedObject, a.IsTuple, a.IsTupleWithExtra, a.IsBaseType, a.IsEnum}
}

func c20Root(ndefs, depth int) *spec.Swagger {
	root := &spec.Swagger{}
	root.Definitions = spec.Definitions{}
	for i := 0; i < ndefs; i++ {
		root.Definitions["d"+itoaSmall(i)] = c20Schema("d"+itoaSmall(i), depth, 0)
	}
	return root
}

// classification of an arbitrary schema, and of a $ref to it (definitions are $ref-free here; recursion: vrfH_C20self)
func vrfH_C20() {
	ndefs := vrfParam("defs", 1)
	root := c20Root(ndefs, vrfParam("ddepth", 1))
	s := c20Schema("s", vrfParam("depth", 1), ndefs)
	a, err := Schema(SchemaOpts{Schema: &s, Root: root, BasePath: "/x/root.json"})
	vrfAssert("no-error-on-resolvable-schema", err == nil)
	if err != nil {
		return
	}
	c20Coherent("schema", a)

	// $ref transparency: a schema that is only a $ref classifies exactly like its target
	if s.Ref.String() != "" {
		k := vrfInt("s.target", 0, ndefs-1)
		target := root.Definitions["d"+itoaSmall(k)]
		ta, terr := Schema(SchemaOpts{Schema: &target, Root: root, BasePath: "/x/root.json"})
		vrfAssert("target-classifies", terr == nil)
		if terr == nil {
			vrfAssert("ref-classifies-like-its-target", c20Flags(a) == c20Flags(ta))
		}
		vrfCover("ref-to-a-definition", true)
		return
	}

	// documented rules (the schema is one of the grammar's categories)
	typ := ""
	if len(s.Type) > 0 {
		typ = s.Type[0]
	}
	isObj := s.Type == nil || typ == "object" || typ == ""
	primitive := typ == "string" || typ == "integer" || typ == "number" || typ == "boolean"
	hasProps := len(s.Properties) > 0
	hasAllOf := len(s.AllOf) > 0
	tuple := s.Items != nil && len(s.Items.Schemas) > 0
	hasAP := s.AdditionalProperties != nil && (s.AdditionalProperties.Schema != nil || s.AdditionalProperties.Allows)
	if primitive {
		vrfAssert("primitive-is-not-complex", !a.isAnalyzedAsComplex())
	}
	if isObj && (hasProps || hasAllOf) && !hasAP {
		vrfAssert("object-with-properties-or-allOf-is-complex", a.isAnalyzedAsComplex())
	}
	if tuple {
		vrfAssert("tuple-is-complex", a.isAnalyzedAsComplex() && (a.IsTuple || a.IsTupleWithExtra))
	}
	if typ == "array" && !tuple {
		vrfAssert("array-is-not-complex", !a.isAnalyzedAsComplex() && a.IsArray)
	}
	if isObj && hasAP && !hasProps && !hasAllOf {
		vrfAssert("map-is-not-complex", !a.isAnalyzedAsComplex() && a.IsMap)
	}
	if isObj && !hasProps && !hasAllOf && !hasAP {
		vrfAssert("empty-object-is-not-complex", !a.isAnalyzedAsComplex())
	}
	vrfAssert("enum-flag", a.IsEnum == (len(s.Enum) > 0))
	tk := vrfParam("topkind", -1)
	if tk < 0 || tk == 1 {
		vrfCover("complex-object", isObj && hasProps && a.isAnalyzedAsComplex())
		if vrfParam("ddepth", 1) > 0 || vrfParam("depth", 1) > 1 {
			vrfCover("map-of-complex", a.IsMap && !a.IsSimpleMap)
		}
	}
	if tk < 0 || tk == 2 {
		vrfCover("simple-array", a.IsSimpleArray)
		if vrfParam("ddepth", 1) > 0 || vrfParam("depth", 1) > 1 {
			vrfCover("array-of-complex", a.IsArray && !a.IsSimpleArray)
		}
	}
	if tk < 0 || tk == 3 {
		vrfCover("tuple-with-extra", a.IsTupleWithExtra)
	}
}

// termination on self-containing and mutually recursive definitions
func vrfH_C20self() {
	root := &spec.Swagger{}
	root.Definitions = spec.Definitions{}
	n := vrfParam("defs", 2)
	for i := 0; i < n; i++ {
		tag := "d" + itoaSmall(i)
		var s spec.Schema
		ref := spec.Schema{}
		// kinds and targets of the definitions are concrete per run ("kinds"/"targets": base-5 / base-n digits)
		kinds, targets := vrfParam("kinds", 0), vrfParam("targets", 0)
		for j := 0; j < i; j++ {
			kinds /= 5
			targets /= n
		}
		kind, target := kinds%5, targets%n
		if vrfParam("symbolic", 0) != 0 {
			// kinds and targets chosen by the solver
			kind, target = vrfInt(tag+".kind", 0, 4), vrfInt(tag+".target", 0, n-1)
		}
		ref.Ref = spec.MustCreateRef("#/definitions/d" + itoaSmall(target))
		switch kind {
		case 0: // plain string
			s.Type = spec.StringOrArray{"string"}
		case 1: // object with a property referring to a definition
			s.Type = spec.StringOrArray{"object"}
			s.Properties = map[string]spec.Schema{"p": ref}
		case 2: // array of a definition
			s.Type = spec.StringOrArray{"array"}
			it := ref
			s.Items = &spec.SchemaOrArray{Schema: &it}
		case 3: // map of a definition
			s.Type = spec.StringOrArray{"object"}
			ap := ref
			s.AdditionalProperties = &spec.SchemaOrBool{Allows: true, Schema: &ap}
		case 4: // only a $ref
			s = ref
		}
		root.Definitions[tag] = s
	}
	vrfKnown("c20-schema-recursion-through-items-or-additionalProperties", c20Cyclic(root, n))
	d0 := root.Definitions["d0"]
	a, err := Schema(SchemaOpts{Schema: &d0, Root: root, BasePath: "/x/root.json"})
	if err == nil {
		c20Coherent("recursive", a)
	}
	if vrfParam("noerror", 0) != 0 {
		// every $ref resolves inside the root, and d0 does not lie on a cycle of pure $refs: classification succeeds,
		// and a d0 that is only a $ref classifies exactly like its target analyzed in place
		vrfAssert("recursive: no-error-on-resolvable-definitions", err == nil)
		if err == nil && d0.Ref.String() != "" {
			tgt := root.Definitions["d"+itoaSmall(vrfParam("targets", 0)%n)]
			b, err2 := Schema(SchemaOpts{Schema: &tgt, Root: root, BasePath: "/x/root.json"})
			vrfAssert("recursive: target-classifies", err2 == nil)
			if err2 == nil {
				vrfAssert("recursive: ref-transparency", c20Flags(a) == c20Flags(b))
			}
		}
	}
	vrfCover("terminates", true)
}

// c20Cyclic: does d0 reach a cycle that runs only through items / additionalProperties / pure-$ref edges?
func c20Cyclic(root *spec.Swagger, n int) bool {
	cur := 0
	for step := 0; step <= n; step++ {
		s := root.Definitions["d"+itoaSmall(cur)]
		next := -1
		for k := 0; k < n; k++ {
			r := "#/definitions/d" + itoaSmall(k)
			if s.Ref.String() == r {
				next = k
			}
			if s.Items != nil && s.Items.Schema != nil && s.Items.Schema.Ref.String() == r {
				next = k
			}
			if s.AdditionalProperties != nil && s.AdditionalProperties.Schema != nil && s.AdditionalProperties.Schema.Ref.String() == r {
				next = k
			}
		}
		if next < 0 {
			return false
		}
		cur = next
	}
	return true
}
