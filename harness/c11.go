package analysis

import "github.com/go-openapi/spec"

// C11: the reference index is complete and sound.
// C13: pattern and enum indexes are complete and correctly classified.

var _ = vrfRegister("vrfH_C11", vrfH_C11)
var _ = vrfRegister("vrfH_C13", vrfH_C13)

func vrfH_C11() {
	cfg := cfgFromParams()
	cfg.refs = true
	doc := symSwagger(cfg)
	want := newOracle()
	want.document(doc)

	an := New(doc)

	vrfAssert("schema-refs-index", vrfDeepEqual(an.references.schemas, want.schemaRefs))
	vrfAssert("parameter-refs-index", vrfDeepEqual(an.references.parameters, want.paramRefs))
	vrfAssert("response-refs-index", vrfDeepEqual(an.references.responses, want.respRefs))
	vrfAssert("path-item-refs-index", vrfDeepEqual(an.references.pathItems, want.pathItemRefs))
	vrfAssert("items-refs-index", vrfDeepEqual(an.references.items, want.itemsRefs))
	vrfAssert("header-items-refs-index", vrfDeepEqual(an.references.headerItems, want.headerItemsRefs))
	vrfAssert("parameter-items-refs-index", vrfDeepEqual(an.references.parameterItems, want.paramItemsRefs))
	vrfAssert("all-refs-index", vrfDeepEqual(an.references.allRefs, want.allRefs))

	if vrfParam("getters", 1) != 0 {
		vrfAssert("AllDefinitionReferences", vrfSameMultiset(an.AllDefinitionReferences(), refStrings(want.schemaRefs)))
		vrfAssert("AllParameterReferences", vrfSameMultiset(an.AllParameterReferences(), refStrings(want.paramRefs)))
		vrfAssert("AllResponseReferences", vrfSameMultiset(an.AllResponseReferences(), refStrings(want.respRefs)))
		vrfAssert("AllPathItemReferences", vrfSameMultiset(an.AllPathItemReferences(), refStrings(want.pathItemRefs)))
		vrfAssert("AllItemsReferences", vrfSameMultiset(an.AllItemsReferences(), refStrings(want.itemsRefs)))
		vrfAssert("AllReferences", vrfSameMultiset(an.AllReferences(), refStrings(want.allRefs)))
		// AllRefs: the set of distinct non-empty references (planted refs are distinct per position)
		var wantRefs []spec.Ref
		for _, r := range want.allRefs {
			wantRefs = append(wantRefs, r)
		}
		vrfAssert("AllRefs", vrfSameMultiset(an.AllRefs(), wantRefs))
	}
	vrfCover("some-ref-indexed", len(want.allRefs) > 0)
	vrfCover("no-ref-at-all", len(want.allRefs) == 0)
	_ = spec.Ref{}
}

func vrfH_C13() {
	cfg := cfgFromParams()
	cfg.patterns = vrfParam("patterns", 1) != 0
	cfg.enums = vrfParam("enums", 1) != 0
	doc := symSwagger(cfg)
	want := newOracle()
	want.document(doc)

	an := New(doc)

	if cfg.patterns {
		vrfAssert("ParameterPatterns", vrfDeepEqual(an.ParameterPatterns(), want.paramPatterns))
		vrfAssert("HeaderPatterns", vrfDeepEqual(an.HeaderPatterns(), want.headerPatterns))
		vrfAssert("ItemsPatterns", vrfDeepEqual(an.ItemsPatterns(), want.itemsPatterns))
		vrfAssert("SchemaPatterns", vrfDeepEqual(an.SchemaPatterns(), want.schemaPatterns))
		vrfAssert("AllPatterns", vrfDeepEqual(an.AllPatterns(), want.allPatterns))
		vrfCover("some-pattern", len(want.allPatterns) > 0)
	}
	if cfg.enums {
		vrfAssert("ParameterEnums", vrfDeepEqual(an.ParameterEnums(), want.paramEnums))
		vrfAssert("HeaderEnums", vrfDeepEqual(an.HeaderEnums(), want.headerEnums))
		vrfAssert("ItemsEnums", vrfDeepEqual(an.ItemsEnums(), want.itemsEnums))
		vrfAssert("SchemaEnums", vrfDeepEqual(an.SchemaEnums(), want.schemaEnums))
		vrfAssert("AllEnums", vrfDeepEqual(an.AllEnums(), want.allEnums))
		vrfCover("some-enum", len(want.allEnums) > 0)
	}
}
