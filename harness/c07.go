package analysis

import (
	"github.com/go-openapi/analysis/internal/flatten/operations"
	"github.com/go-openapi/analysis/internal/flatten/sortref"
	"github.com/go-openapi/jsonpointer"
	"github.com/go-openapi/spec"
)

// C07: Flatten is deterministic, whatever the iteration order of Go maps.
// The only source of nondeterminism in the package is map iteration. Each order-sensitive unit is run twice on the
// same symbolic input under two INDEPENDENT SYMBOLIC PERMUTATIONS of every map range (vrfMapOrder): equality of the
// two results for all inputs and all pairs of orders is one solver query per unit (2-safety by self-composition).
// Natively (replay) the unit is repeated vrfTrials() times under the runtime's own random orders.

var _ = vrfRegister("vrfH_C07less", vrfH_C07less)
var _ = vrfRegister("vrfH_C07uniq", vrfH_C07uniq)
var _ = vrfRegister("vrfH_C07depthfirst", vrfH_C07depthfirst)
var _ = vrfRegister("vrfH_C07topmost", vrfH_C07topmost)
var _ = vrfRegister("vrfH_C07gather", vrfH_C07gather)

// the comparator behind DepthFirst is a strict total order on distinct keys: any sort then yields one sequence
func vrfH_C07less() {
	ks := sortref.Keys{
		{Segments: vrfInt("s0", 0, 3), Key: vrfStr("k0", 3)},
		{Segments: vrfInt("s1", 0, 3), Key: vrfStr("k1", 3)},
		{Segments: vrfInt("s2", 0, 3), Key: vrfStr("k2", 3)},
	}
	vrfAssert("irreflexive", !ks.Less(0, 0))
	if ks[0].Key != ks[1].Key {
		// keys of one map are distinct strings; the number of segments is a function of the key
		vrfAssert("total-and-asymmetric-on-distinct-keys", ks.Less(0, 1) != ks.Less(1, 0))
	}
	if ks.Less(0, 1) && ks.Less(1, 2) {
		vrfAssert("transitive", ks.Less(0, 2))
	}
	vrfCover("keys-differing-in-letter-case-only", len(ks[0].Key) == 1 && len(ks[1].Key) == 1 && ks[0].Key[0] == 'a' && ks[1].Key[0] == 'A')
}

func c07SameStrings(a, b []string) bool {
	if len(a) != len(b) {
		return false
	}
	for i := range a {
		if a[i] != b[i] {
			return false
		}
	}
	return true
}

// uniqifyName: the chosen name does not depend on the order in which the definitions are visited
func vrfH_C07uniq() {
	n := vrfParam("defs", 3)
	name := vrfStr("name", 1)
	vrfAssume(c03ASCII(name))
	defs := spec.Definitions{}
	for i := 0; i < n; i++ {
		t := "def" + itoaSmall(i)
		if !vrfBool(t) {
			continue
		}
		b := vrfStr(t+".base", 1)
		vrfAssume(c03ASCII(b))
		k := b + c03Suffixes[vrfInt(t+".suffix", 0, 2)]
		vrfAssume(k != "")
		defs[k] = spec.Schema{}
	}
	var first string
	var firstGen bool
	for t := 0; t < vrfTrials(); t++ {
		if t == 0 {
			vrfMapOrder("A")
		} else {
			vrfMapOrder("B")
		}
		r, g := uniqifyName(defs, name)
		vrfMapOrder("")
		if t == 0 {
			first, firstGen = r, g
		} else {
			vrfAssert("uniqifyName-independent-of-map-order", r == first && g == firstGen)
		}
	}
	vrfCover("several-definitions-match-up-to-case", len(defs) >= 2 && first != name)
}

// keys of the kinds the analyzer produces (definitions, nested properties, parameters, responses)
func c07Key(tag string) string {
	nm := jsonpointer.Escape(symName(tag+".name", 1))
	switch vrfParam(tag+".kind", 0) {
	case 1:
		return "#/definitions/" + nm + "/properties/" + jsonpointer.Escape(symName(tag+".prop", 1))
	case 2:
		return "#/paths/~1a/get/parameters/0/schema/properties/" + nm
	case 3:
		return "#/paths/~1a/get/responses/200/schema/properties/" + nm
	case 4:
		return "#/responses/" + nm + "/schema"
	}
	return "#/definitions/" + nm + "/items"
}

// DepthFirst: the order in which inline schemas / pointers are processed does not depend on the map order
func vrfH_C07depthfirst() {
	n := vrfParam("keys", 3)
	m := map[string]SchemaRef{}
	for i := 0; i < n; i++ {
		if vrfBool("k" + itoaSmall(i)) {
			m[c07Key("k"+itoaSmall(i))] = SchemaRef{}
		}
	}
	var first []string
	for t := 0; t < vrfTrials(); t++ {
		if t == 0 {
			vrfMapOrder("A")
		} else {
			vrfMapOrder("B")
		}
		got := sortref.DepthFirst(m)
		vrfMapOrder("")
		if t == 0 {
			first = got
		} else {
			vrfAssert("DepthFirst-independent-of-map-order", c07SameStrings(got, first))
		}
		vrfAssert("DepthFirst-keeps-every-key", len(got) == len(m))
	}
	vrfCover("three-keys", len(m) == 3)
}

// TopmostFirst on parents collected by ranging over a map
func vrfH_C07topmost() {
	n := vrfParam("keys", 3)
	m := map[string]bool{}
	for i := 0; i < n; i++ {
		if vrfBool("k" + itoaSmall(i)) {
			m[c07Key("k"+itoaSmall(i))] = true
		}
	}
	var first []string
	for t := 0; t < vrfTrials(); t++ {
		if t == 0 {
			vrfMapOrder("A")
		} else {
			vrfMapOrder("B")
		}
		var parents []string
		for k := range m {
			parents = append(parents, k)
		}
		vrfMapOrder("")
		got := sortref.TopmostFirst(parents)
		if t == 0 {
			first = got
		} else {
			vrfAssert("TopmostFirst-independent-of-collection-order", c07SameStrings(got, first))
		}
	}
	vrfCover("three-parents", len(m) == 3)
}

// GatherOperations: the operation index used to name inline schemas does not depend on the map order
func vrfH_C07gather() {
	doc := &spec.Swagger{}
	doc.Paths = &spec.Paths{Paths: map[string]spec.PathItem{}}
	// two path templates whose generated operation names coincide ("get /a" vs "get /{a}" -> GetA), GET on both,
	// operation ids symbolic (possibly empty, possibly equal)
	for i, name := range []string{"/a", "/{a}"} {
		t := "path" + itoaSmall(i)
		var pi spec.PathItem
		op := &spec.Operation{}
		op.ID = vrfStr(t+".get.id", 1)
		op.Description = t
		pi.Get = op
		doc.Paths.Paths[name] = pi
	}
	an := New(doc)
	var first map[string]operations.OpRef
	for t := 0; t < vrfTrials(); t++ {
		if t == 0 {
			vrfMapOrder("A")
		} else {
			vrfMapOrder("B")
		}
		got := operations.GatherOperations(an, nil)
		vrfMapOrder("")
		if t == 0 {
			first = got
		} else {
			same := len(got) == len(first)
			for k, v := range got {
				w, ok := first[k]
				if !ok || w.Method != v.Method || w.Path != v.Path || w.ID != v.ID {
					same = false
				}
			}
			vrfAssert("GatherOperations-independent-of-map-order", same)
		}
	}
	vrfCover("both-operations-without-id", len(first) >= 1 && doc.Paths.Paths["/a"].Get.ID == "" && doc.Paths.Paths["/{a}"].Get.ID == "")
}

var _ = vrfRegister("vrfH_C07analyze", vrfH_C07analyze)

// New: the analysis that every Flatten step starts from (names, pointers and the schema each one designates) does
// not depend on the order in which the analyzer visits the maps of the document
func vrfH_C07analyze() {
	cfg := cfgFromParams()
	cfg.refs = true
	doc := symSwagger(cfg)
	var first *Spec
	for t := 0; t < vrfTrials(); t++ {
		if t == 0 {
			vrfMapOrder("A")
		} else {
			vrfMapOrder("B")
		}
		an := New(doc)
		vrfMapOrder("")
		if t == 0 {
			first = an
		} else {
			vrfAssert("analysis-independent-of-map-order", vrfDeepEqual(an, first))
		}
	}
	vrfCover("a-schema-with-two-members-in-one-map", c07TwoMembers(doc))
}

func c07TwoMembers(doc *spec.Swagger) bool {
	for _, d := range doc.Definitions {
		if len(d.Properties) >= 2 || len(d.PatternProperties) >= 2 || len(d.Definitions) >= 2 {
			return true
		}
	}
	return false
}
