package analysis

import (
	"github.com/go-openapi/jsonpointer"
	"github.com/go-openapi/spec"
)

// C03 (moving part), phase-inductive: nameInlinedSchemas - the step of a full Flatten that moves complex inline schemas
// to definitions - is run from an arbitrary document in expanded form (inline schemas at every holder position, $refs
// only of the canonical form #/definitions/<name>), which is what the earlier steps establish.
// Decided on the result: no complex schema is left anywhere but at the top level of definitions; every position that
// held one now holds a chain of $refs leading back to the very same content; nothing else changed; the analyzer that
// was passed in answers like a fresh analysis of the result (C10 for this step).

var _ = vrfRegister("vrfH_C03inline", vrfH_C03inline)

// c03Shape: the schema planted at a position. kind: 0 string, 1 object with one string property (complex),
// 2 array of strings, 3 array of complex objects, 4 $ref to the definition "a", 5 object with a property that is
// itself a complex object (nesting), 6 allOf of a $ref and an object (complex), 7 allOf of a $ref with
// additionalProperties and no properties of its own (complex: a composition, not a map)
var c03Shapes int
var c03AnyDangling, c03AnyComplex bool
var c03DefA string

func c03Shape(tag string, kinds int) spec.Schema {
	var s spec.Schema
	str := spec.Schema{}
	str.Type = spec.StringOrArray{"string"}
	obj := spec.Schema{}
	obj.Type = spec.StringOrArray{"object"}
	obj.Description = tag + ".obj"
	strE := str
	strE.Enum = []interface{}{tag} // an enum (and no pattern anywhere): its index key moves with the schema
	obj.Properties = map[string]spec.Schema{c03Name(tag+".q", "q"): strE}
	// the shape of each position is concrete per run (digits of the "shapes" parameter, base 9, in planting order);
	// what is symbolic are the names
	k := c03Shapes % 9
	c03Shapes /= 9
	if vrfParam("symshapes", 0) != 0 {
		// ... or chosen by the solver among the kinds allowed by the "kinds" bit mask
		k = vrfInt(tag+".kind", 0, 8)
		allowed := false
		for i := 0; i < 9; i++ {
			if k == i && (kinds>>uint(i))&1 == 1 {
				allowed = true
			}
		}
		vrfAssume(allowed)
	}
	switch k {
	case 0:
		s = str
	case 1:
		s = obj
	case 2:
		s.Type = spec.StringOrArray{"array"}
		it := str
		s.Items = &spec.SchemaOrArray{Schema: &it}
	case 3:
		s.Type = spec.StringOrArray{"array"}
		it := obj
		s.Items = &spec.SchemaOrArray{Schema: &it}
	case 4:
		s.Ref = spec.MustCreateRef("#/definitions/" + jsonpointer.Escape(c03DefA))
	case 5:
		s.Type = spec.StringOrArray{"object"}
		s.Description = tag + ".outer"
		s.Properties = map[string]spec.Schema{c03Name(tag+".r", "r"): obj}
	case 6:
		ref := spec.Schema{}
		ref.Ref = spec.MustCreateRef("#/definitions/" + jsonpointer.Escape(c03DefA))
		s.Description = tag + ".allof"
		s.AllOf = []spec.Schema{ref, obj}
	case 7:
		ref := spec.Schema{}
		ref.Ref = spec.MustCreateRef("#/definitions/" + jsonpointer.Escape(c03DefA))
		s.Description = tag + ".allofmap"
		s.AllOf = []spec.Schema{ref}
		ap := str
		s.AdditionalProperties = &spec.SchemaOrBool{Allows: true, Schema: &ap}
	case 8:
		// a dangling $ref (class W+ of C09): the definition has no "not" schema
		s.Ref = spec.MustCreateRef("#/definitions/" + jsonpointer.Escape(c03DefA) + "/not")
		c03AnyDangling = true
	}
	if k == 1 || k == 3 || k == 5 || k == 6 || k == 7 {
		c03AnyComplex = true
	}
	return s
}

func c03IsComplex(s *spec.Schema) bool {
	if s == nil || s.Ref.String() != "" {
		return false
	}
	return len(s.Properties) > 0 || len(s.AllOf) > 0 || (s.Items != nil && len(s.Items.Schemas) > 0)
}

// c03NoComplexBelow: no complex schema strictly below s (s itself may be a top-level definition)
func c03NoComplexBelow(s *spec.Schema) bool {
	ok := true
	for _, p := range s.Properties {
		p := p
		if c03IsComplex(&p) || !c03NoComplexBelow(&p) {
			ok = false
		}
	}
	for i := range s.AllOf {
		// allOf members that are objects with properties are complex and moved as well
		if c03IsComplex(&s.AllOf[i]) || !c03NoComplexBelow(&s.AllOf[i]) {
			ok = false
		}
	}
	if s.Items != nil && s.Items.Schema != nil {
		if c03IsComplex(s.Items.Schema) || !c03NoComplexBelow(s.Items.Schema) {
			ok = false
		}
	}
	return ok
}

// c03Restore puts the content of definitions created by the step back in place (the inverse of the move), and drops
// the informative extension the step adds
func c03Restore(doc *spec.Swagger, orig map[string]bool, s spec.Schema, fuel int) spec.Schema {
	if fuel == 0 {
		return s
	}
	if s.Ref.String() != "" {
		toks := s.Ref.GetPointer().DecodedTokens()
		if len(toks) == 2 && toks[0] == "definitions" && !orig[toks[1]] {
			if d, ok := doc.Definitions[toks[1]]; ok {
				return c03Restore(doc, orig, d, fuel-1)
			}
		}
		return s
	}
	if s.Extensions != nil {
		ne := spec.Extensions{}
		for k, v := range s.Extensions {
			if k != "x-go-gen-location" {
				ne[k] = v
			}
		}
		s.Extensions = nil
		if len(ne) > 0 {
			s.Extensions = ne
		}
	}
	if s.Properties != nil {
		np := map[string]spec.Schema{}
		for k, v := range s.Properties {
			np[k] = c03Restore(doc, orig, v, fuel-1)
		}
		s.Properties = np
	}
	if s.AllOf != nil {
		na := make([]spec.Schema, len(s.AllOf))
		for i := range s.AllOf {
			na[i] = c03Restore(doc, orig, s.AllOf[i], fuel-1)
		}
		s.AllOf = na
	}
	if s.Items != nil && s.Items.Schema != nil {
		it := c03Restore(doc, orig, *s.Items.Schema, fuel-1)
		s.Items = &spec.SchemaOrArray{Schema: &it}
	}
	return s
}

// presence of each position is concrete per run ("present" bit mask: 1 a.p, 2 op.body, 4 op.200, 8 op.default, 16 path.body)
func c03Has(pos string) bool {
	bits := map[string]int{"a.p": 1, "op.body": 2, "op.200": 4, "op.default": 8, "path.body": 16}
	if vrfParam("present", 31)&bits[pos] == 0 {
		return false
	}
	if vrfParam("sympresent", 0) != 0 {
		return vrfBool(pos)
	}
	return true
}

// c03Name: a symbolic name over the alphabet (namelen > 0), or the given concrete one
func c03Name(tag, dflt string) string {
	// "symnames" selects which names are symbolic: 1 the definition, 2 its property, 4 the path, 8 nested properties
	bit := 8
	switch tag {
	case "a":
		bit = 1
	case "a.p":
		bit = 2
	case "path":
		bit = 4
	}
	if vrfParam("symnames", 0)&bit == 0 {
		return dflt
	}
	// a name chosen by the solver from a pool that needs every kind of escaping (JSON pointer: '/', '~'; URL: blank,
	// braces, non-ASCII) - whole strings, so that every string operation of the step runs on constants per alternative
	pool := c03Pools[vrfParam("pool", 0)]
	if idx := vrfParam("nameidx", -1); idx >= 0 {
		// whole-step runs sort and re-index the keys many times: the name is fixed per run
		return pool[idx]
	}
	if vrfBool(tag + ".name.b1") {
		if vrfBool(tag + ".name.b0") {
			return pool[3]
		}
		return pool[2]
	}
	if vrfBool(tag + ".name.b0") {
		return pool[1]
	}
	return pool[0]
}

var c03Pools = [][]string{
	{"pet", "a/b", "x y", "~t"},
	{"Pet", "{id}", "é", "a~1b"},
	{"a", "a b", "A", "a/b c~d"},
}

func vrfH_C03inline() {
	kinds := vrfParam("kinds", 255)
	c03Shapes = vrfParam("shapes", 0)
	c03AnyDangling, c03AnyComplex = false, false
	defA := c03Name("a", "a")
	c03DefA = defA
	propP := c03Name("a.p", "p")
	vrfAssume(propP != "id")
	pathX := "/" + c03Name("path", "x")
	method := vrfParam("method", 0)
	doc := &spec.Swagger{}
	doc.Definitions = spec.Definitions{}
	var a spec.Schema
	a.Type = spec.StringOrArray{"object"}
	a.Description = "a"
	a.Properties = map[string]spec.Schema{"id": {}}
	if c03Has("a.p") {
		a.Properties[propP] = c03Shape("a.p", kinds)
	}
	doc.Definitions[defA] = a

	op := &spec.Operation{}
	op.ID = "opA"
	if c03Has("op.body") {
		var p spec.Parameter
		p.Name, p.In = "body", "body"
		sch := c03Shape("op.body", kinds)
		p.Schema = &sch
		op.Parameters = append(op.Parameters, p)
	}
	op.Responses = &spec.Responses{}
	if c03Has("op.200") {
		var r spec.Response
		r.Description = "ok"
		sch := c03Shape("op.200", kinds)
		r.Schema = &sch
		op.Responses.StatusCodeResponses = map[int]spec.Response{vrfParam("code", 200): r}
	}
	if c03Has("op.default") {
		var r spec.Response
		r.Description = "default"
		sch := c03Shape("op.default", kinds)
		r.Schema = &sch
		op.Responses.Default = &r
	}
	var pi spec.PathItem
	switch method {
	case 0:
		pi.Get = op
	case 1:
		pi.Put = op
	case 2:
		pi.Post = op
	case 3:
		pi.Delete = op
	case 4:
		pi.Options = op
	case 5:
		pi.Head = op
	case 6:
		pi.Patch = op
	}
	if c03Has("path.body") {
		var p spec.Parameter
		p.Name, p.In = "shared", "body"
		sch := c03Shape("path.body", kinds)
		p.Schema = &sch
		pi.Parameters = append(pi.Parameters, p)
	}
	doc.Paths = &spec.Paths{Paths: map[string]spec.PathItem{pathX: pi}}

	orig := map[string]bool{defA: true}
	if cn := vrfParam("collide", 0); cn != 0 {
		// an existing definition bears the very name the step would generate ("aP" for the property, "opAParamsBody"
		// for the body parameter, "opAOKBody" for the 200 response): the moved schema gets an OAIGen name, which the
		// rest of a full Flatten (stripPointersAndOAIGen) then tries to get rid of
		name := []string{"", "aP", "opAParamsBody", "opAOKBody", "AP"}[cn]
		var col spec.Schema
		col.Type = spec.StringOrArray{"string"}
		col.Description = "collider"
		doc.Definitions[name] = col
		orig[name] = true
	}
	before := vrfDeepCopy(doc).(*spec.Swagger)

	opts := FlattenOpts{Spec: New(doc), BasePath: "/x/root.json", KeepNames: vrfParam("keepnames", 0) != 0}
	opts.flattenContext = newContext()
	err := nameInlinedSchemas(&opts)
	if c03AnyDangling {
		// C09: a dangling $ref is met as soon as a schema is moved (every $ref is re-resolved then): an error, never a
		// panic (no-panic obligations are raised by the executor on every dereference of the step)
		if c03AnyComplex {
			vrfAssert("dangling-ref-reported-as-an-error", err != nil)
		}
		if kinds&256 != 0 {
			vrfCover("dangling-ref-and-a-schema-to-move", c03AnyComplex)
		}
		return
	}
	vrfAssert("no-error", err == nil)
	if err != nil {
		return
	}
	if vrfParam("tail", 0) != 0 {
		// the rest of a full Flatten's naming: pointers, OAIGen stripping, and the re-naming loop around them
		err = stripPointersAndOAIGen(&opts)
		vrfAssert("no-error-in-the-OAIGen-loop", err == nil)
		if err != nil {
			return
		}
	}

	// 1. nothing complex is left below the top level of definitions, nor at any operation position
	for _, d := range doc.Definitions {
		d := d
		vrfAssert("definitions-hold-no-nested-complex-schema", c03NoComplexBelow(&d))
	}
	pi2 := doc.Paths.Paths[pathX]
	op2 := c14OpsOf(pi2)[method]
	vrfAssert("operation-kept", op2 == op)
	positions := []*spec.Schema{}
	for i := range op2.Parameters {
		positions = append(positions, op2.Parameters[i].Schema)
	}
	for i := range pi2.Parameters {
		positions = append(positions, pi2.Parameters[i].Schema)
	}
	if r, ok := op2.Responses.StatusCodeResponses[vrfParam("code", 200)]; ok {
		positions = append(positions, r.Schema)
	}
	if op2.Responses.Default != nil {
		positions = append(positions, op2.Responses.Default.Schema)
	}
	moved := false
	for _, s := range positions {
		vrfAssert("operation-positions-hold-a-schema", s != nil)
		if s == nil {
			continue
		}
		vrfAssert("operation-positions-hold-no-complex-schema", !c03IsComplex(s))
		vrfAssert("operation-positions-hold-no-nested-complex-schema", c03NoComplexBelow(s))
	}

	// 2. putting the created definitions back in place gives the original document
	restored := vrfDeepCopy(doc).(*spec.Swagger)
	for k := range restored.Definitions {
		if !orig[k] {
			moved = true
			delete(restored.Definitions, k)
		}
	}
	ra := c03Restore(doc, orig, doc.Definitions[defA], 6)
	restored.Definitions[defA] = ra
	rpi := restored.Paths.Paths[pathX]
	rop := c14OpsOf(rpi)[method]
	for i := range rop.Parameters {
		s := c03Restore(doc, orig, *rop.Parameters[i].Schema, 6)
		rop.Parameters[i].Schema = &s
	}
	for i := range rpi.Parameters {
		s := c03Restore(doc, orig, *rpi.Parameters[i].Schema, 6)
		rpi.Parameters[i].Schema = &s
	}
	if r, ok := rop.Responses.StatusCodeResponses[vrfParam("code", 200)]; ok {
		s := c03Restore(doc, orig, *r.Schema, 6)
		r.Schema = &s
		rop.Responses.StatusCodeResponses[vrfParam("code", 200)] = r
	}
	if rop.Responses.Default != nil {
		s := c03Restore(doc, orig, *rop.Responses.Default.Schema, 6)
		rop.Responses.Default.Schema = &s
	}
	restored.Paths.Paths[pathX] = rpi
	vrfAssert("content-preserved-up-to-the-move", vrfDeepEqual(restored, before))

	// 3. every $ref designates an existing definition
	for _, r := range New(doc).AllRefs() {
		toks := r.GetPointer().DecodedTokens()
		_, ok := doc.Definitions[toks[len(toks)-1]]
		vrfAssert("no-dangling-ref", len(toks) == 2 && toks[0] == "definitions" && ok)
	}

	// 4. C10 for this step
	vrfAssert("analyzer-in-sync", vrfDeepEqual(opts.Spec, New(doc)))

	vrfCover("some-schema-moved", moved)
	vrfCover("nothing-to-move", !moved)
	_ = jsonpointer.Escape
}
