package analysis

import (
	"github.com/go-openapi/jsonpointer"
	"github.com/go-openapi/spec"
)

// C15: effective parameters of an operation are resolved correctly.

var _ = vrfRegister("vrfH_C15", vrfH_C15)
var _ = vrfRegister("vrfH_C15id", vrfH_C15id)

var c15Names = []string{"a", "b"}

func c15Inline(tag string) spec.Parameter {
	var p spec.Parameter
	p.Name = c15Names[vrfInt(tag+".name", 0, 1)]
	if vrfBool(tag + ".inheader") {
		p.In = "header"
	} else {
		p.In = "query"
	}
	p.Description = tag
	if vrfParam("xgoname", 0) != 0 && vrfBool(tag+".x-go-name") {
		// a vendor extension that must not influence which parameters override which
		p.Extensions = spec.Extensions{"x-go-name": c15Names[vrfInt(tag+".x-go-name.v", 0, 1)]}
	}
	return p
}

// c15Param: inline, $ref to a shared parameter by (symbolic) name, or $ref to a definition (not a parameter)
// The kind of each position is concrete (digits of the "kinds" parameter, base 3), so that a position never holds a
// merge of a $ref and an inline parameter; the check runs over a set of kind vectors (checks.json).
var c15KindPos int

func c15Param(tag string) spec.Parameter {
	kinds := vrfParam("kinds", 0)
	for i := 0; i < c15KindPos; i++ {
		kinds /= 3
	}
	c15KindPos++
	switch kinds % 3 {
	case 1:
		var p spec.Parameter
		p.Ref = spec.MustCreateRef("#/parameters/" + jsonpointer.Escape(symName(tag+".target", 1)))
		return p
	case 2:
		var p spec.Parameter
		p.Ref = spec.MustCreateRef("#/definitions/d")
		return p
	}
	return c15Inline(tag)
}

func c15Params(tag string, n int) []spec.Parameter {
	ps := []spec.Parameter{}
	for i := 0; i < n; i++ {
		t := tag + "." + itoaSmall(i)
		ps = append(ps, c15Param(t))
	}
	if !vrfBool(tag) {
		return nil
	}
	return ps[:vrfInt(tag+".len", 0, n)]
}

type c15Doc struct {
	doc      *spec.Swagger
	pi       spec.PathItem
	hasPath  bool
	get, put *spec.Operation
}

func c15Build(n int) *c15Doc {
	c15KindPos = 0
	d := &c15Doc{doc: &spec.Swagger{}}
	d.doc.Definitions = spec.Definitions{"d": spec.Schema{}}
	if vrfBool("shared") {
		d.doc.Parameters = map[string]spec.Parameter{}
		for i := 0; i < 2; i++ {
			t := "shared." + itoaSmall(i)
			if vrfBool(t) {
				d.doc.Parameters[symName(t+".key", 1)] = c15Inline(t)
			}
		}
	}
	if !vrfBool("paths") {
		return d
	}
	d.doc.Paths = &spec.Paths{}
	if !vrfBool("paths.map") {
		return d
	}
	d.doc.Paths.Paths = map[string]spec.PathItem{}
	if !vrfBool("path") {
		return d
	}
	d.hasPath = true
	if vrfBool("path.ref") {
		// a path item may carry a $ref beside its own operations and parameters
		d.pi.Ref = spec.MustCreateRef("#/x-shared/pathitem")
	}
	d.pi.Parameters = c15Params("pathparams", n)
	if vrfBool("get") {
		d.get = &spec.Operation{}
		d.get.ID = vrfStr("get.id", 1)
		d.get.Parameters = c15Params("getparams", n)
		d.pi.Get = d.get
	}
	if vrfBool("put") {
		d.put = &spec.Operation{}
		d.put.ID = vrfStr("put.id", 1)
		d.put.Parameters = c15Params("putparams", n)
		d.pi.Put = d.put
	}
	d.doc.Paths.Paths["/p"] = d.pi
	return d
}

// ---- reference model written from the statement ----

type c15Result struct {
	params  []spec.Parameter // effective parameters (one per (in,name))
	calls   []spec.Parameter // parameters reported through the callback, in order
	badRef  bool             // some unresolvable / non-parameter $ref was met
}

func (r *c15Result) put(p spec.Parameter) {
	for i := range r.params {
		if r.params[i].In == p.In && r.params[i].Name == p.Name {
			r.params[i] = p
			return
		}
	}
	r.params = append(r.params, p)
}

// one list (path level or operation level): cont is what the callback answers
func (r *c15Result) list(doc *spec.Swagger, ps []spec.Parameter, cont bool) {
	for _, p := range ps {
		if p.Ref.String() == "" {
			r.put(p)
			continue
		}
		toks := p.Ref.GetPointer().DecodedTokens()
		if len(toks) == 2 && toks[0] == "parameters" {
			if target, ok := doc.Parameters[toks[1]]; ok {
				r.put(target)
				continue
			}
		}
		r.badRef = true
		r.calls = append(r.calls, p)
		if !cont {
			return
		}
	}
}

func c15Model(d *c15Doc, op *spec.Operation, cont bool) *c15Result {
	r := &c15Result{}
	if !d.hasPath || op == nil {
		return r
	}
	r.list(d.doc, d.pi.Parameters, cont)
	r.list(d.doc, op.Parameters, cont)
	return r
}

func c15Values(m map[string]spec.Parameter) []spec.Parameter {
	var out []spec.Parameter
	for _, v := range m {
		out = append(out, v)
	}
	return out
}

func c15NoPlaceholder(ps []spec.Parameter) bool {
	ok := true
	for _, p := range ps {
		if p.Ref.String() != "" {
			ok = false
		}
	}
	return ok
}

func c15Upper(s string) string {
	b := []byte(s)
	for i := range b {
		if b[i] >= 'a' && b[i] <= 'z' {
			b[i] -= 32
		}
	}
	return string(b)
}

// c15KindUsed: does some of the first npos positions have kind k (digits of the "kinds" parameter)?
func c15KindUsed(k, npos int) bool {
	kinds := vrfParam("kinds", 0)
	for i := 0; i < npos; i++ {
		if kinds%3 == k {
			return true
		}
		kinds /= 3
	}
	return false
}

// lookups by method and path
func vrfH_C15() {
	d := c15Build(vrfParam("n", 2))
	an := New(d.doc)

	method := vrfStr("q.method", 3)
	vrfAssume(c14IsASCII(method))
	path := vrfStr("q.path", 2)
	var op *spec.Operation
	if d.hasPath && path == "/p" {
		switch c15Upper(method) {
		case "GET":
			op = d.get
		case "PUT":
			op = d.put
		}
	}
	// designates no operation: unknown method, unknown path, path without that method, document without paths
	vrfKnown("c15-safeparams-nil-paths", d.doc.Paths == nil)
	vrfKnown("c15-safeparams-missing-operation", d.doc.Paths != nil && d.hasPath && path == "/p" && op == nil)

	cont := vrfBool("callback.continue")
	want := c15Model(d, op, cont)

	var calls []spec.Parameter
	var got map[string]spec.Parameter
	panicked := vrfPanics(func() {
		got = an.SafeParamsFor(method, path, func(p spec.Parameter, err error) bool {
			calls = append(calls, p)
			return cont
		})
	})
	vrfAssert("SafeParamsFor-never-panics", !panicked)
	if !panicked {
		vals := c15Values(got)
		vrfAssert("SafeParamsFor-result", vrfSameMultiset(vals, want.params))
		vrfAssert("SafeParamsFor-no-placeholder", c15NoPlaceholder(vals))
		vrfAssert("SafeParamsFor-callback-protocol", vrfDeepEqual(calls, want.calls) || (len(calls) == 0 && len(want.calls) == 0))
	}

	// plain variant: panics iff a bad $ref is met (same answer otherwise)
	strict := c15Model(d, op, false)
	var got2 map[string]spec.Parameter
	panicked2 := vrfPanics(func() { got2 = an.ParamsFor(method, path) })
	vrfAssert("ParamsFor-panics-iff-bad-ref", panicked2 == strict.badRef)
	if !panicked2 {
		vals2 := c15Values(got2)
		vrfAssert("ParamsFor-result", vrfSameMultiset(vals2, strict.params))
		vrfAssert("ParamsFor-no-placeholder", c15NoPlaceholder(vals2))
	}
	if vrfParam("kinds", 0)%9 == 0 {
		vrfCover("operation-level-overrides-path-level", op != nil && len(d.pi.Parameters) > 0 && len(op.Parameters) > 0 && len(want.params) == 1 && !want.badRef)
	}
	npos := 3 * vrfParam("n", 2)
	if c15KindUsed(1, npos) {
		vrfCover("ref-resolved-to-shared-parameter-somewhere", op != nil && !want.badRef && len(want.params) > 0)
	}
	if c15KindUsed(1, npos) || c15KindUsed(2, npos) {
		vrfCover("bad-ref-reported", want.badRef)
	}
	vrfCover("no-such-operation", op == nil)
}

// lookups by operation id (claimed for non-empty ids unique in the document, and for unknown ids)
func vrfH_C15id() {
	d := c15Build(vrfParam("n", 2))
	an := New(d.doc)
	id := vrfStr("q.id", 1)
	var op *spec.Operation
	n := 0
	if d.get != nil && d.get.ID == id {
		op = d.get
		n++
	}
	if d.put != nil && d.put.ID == id {
		op = d.put
		n++
	}
	vrfAssume(n == 0 || (n == 1 && id != ""))
	vrfKnown("c15-safeparametersfor-nil-paths", d.doc.Paths == nil)

	cont := vrfBool("callback.continue")
	want := c15Model(d, op, cont)
	var calls []spec.Parameter
	var got []spec.Parameter
	panicked := vrfPanics(func() {
		got = an.SafeParametersFor(id, func(p spec.Parameter, err error) bool {
			calls = append(calls, p)
			return cont
		})
	})
	vrfAssert("SafeParametersFor-never-panics", !panicked)
	if !panicked {
		vrfAssert("SafeParametersFor-result", vrfSameMultiset(got, want.params))
		vrfAssert("SafeParametersFor-no-placeholder", c15NoPlaceholder(got))
		vrfAssert("SafeParametersFor-callback-protocol", vrfDeepEqual(calls, want.calls) || (len(calls) == 0 && len(want.calls) == 0))
	}
	strict := c15Model(d, op, false)
	var got2 []spec.Parameter
	panicked2 := vrfPanics(func() { got2 = an.ParametersFor(id) })
	vrfAssert("ParametersFor-panics-iff-bad-ref", panicked2 == strict.badRef)
	if !panicked2 {
		vrfAssert("ParametersFor-result", vrfSameMultiset(got2, strict.params))
	}
	vrfCover("known-id", op != nil)
	vrfCover("unknown-id", op == nil)
}
