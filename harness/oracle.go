package analysis

import "github.com/go-openapi/spec"

// Independent oracle walk over the Swagger object model (DESIGN.md §5, C11–C13). It is written from the object model,
// not from analyzer.go: pointers are built by plain concatenation with its own escaping (oesc), never path.Join.

type oracle struct {
	schemaRefs, paramRefs, respRefs, pathItemRefs, itemsRefs, headerItemsRefs, paramItemsRefs, allRefs map[string]spec.Ref
	paramPatterns, headerPatterns, itemsPatterns, schemaPatterns, allPatterns                           map[string]string
	paramEnums, headerEnums, itemsEnums, schemaEnums, allEnums                                          map[string][]interface{}
	schemas                                                                                             map[string]*spec.Schema
	topLevel, allOfs                                                                                    map[string]bool
	nSchemas                                                                                            int
}

func newOracle() *oracle {
	return &oracle{
		schemaRefs: map[string]spec.Ref{}, paramRefs: map[string]spec.Ref{}, respRefs: map[string]spec.Ref{}, pathItemRefs: map[string]spec.Ref{},
		itemsRefs: map[string]spec.Ref{}, headerItemsRefs: map[string]spec.Ref{}, paramItemsRefs: map[string]spec.Ref{}, allRefs: map[string]spec.Ref{},
		paramPatterns: map[string]string{}, headerPatterns: map[string]string{}, itemsPatterns: map[string]string{}, schemaPatterns: map[string]string{}, allPatterns: map[string]string{},
		paramEnums: map[string][]interface{}{}, headerEnums: map[string][]interface{}{}, itemsEnums: map[string][]interface{}{}, schemaEnums: map[string][]interface{}{}, allEnums: map[string][]interface{}{},
		schemas: map[string]*spec.Schema{}, topLevel: map[string]bool{}, allOfs: map[string]bool{},
	}
}

func (o *oracle) schema(ptr string, s *spec.Schema, top bool) {
	o.schemas[ptr] = s
	o.nSchemas++
	if top {
		o.topLevel[ptr] = true
	}
	if s.Ref.String() != "" {
		o.schemaRefs[ptr] = s.Ref
		o.allRefs[ptr] = s.Ref
	}
	if s.Pattern != "" {
		o.schemaPatterns[ptr] = s.Pattern
		o.allPatterns[ptr] = s.Pattern
	}
	if len(s.Enum) > 0 {
		o.schemaEnums[ptr] = s.Enum
		o.allEnums[ptr] = s.Enum
	}
	if len(s.AllOf) > 0 {
		o.allOfs[ptr] = true
	}
	for k, v := range s.Properties {
		v := v
		o.schema(ptr+"/properties/"+oesc(k), &v, false)
	}
	for k, v := range s.PatternProperties {
		v := v
		o.schema(ptr+"/patternProperties/"+oesc(k), &v, false)
	}
	for k, v := range s.Definitions {
		v := v
		o.schema(ptr+"/definitions/"+oesc(k), &v, false)
	}
	if s.Items != nil {
		if s.Items.Schema != nil {
			o.schema(ptr+"/items", s.Items.Schema, false)
		}
		for i := range s.Items.Schemas {
			o.schema(ptr+"/items/"+itoaSmall(i), &s.Items.Schemas[i], false)
		}
	}
	if s.AdditionalProperties != nil && s.AdditionalProperties.Schema != nil {
		o.schema(ptr+"/additionalProperties", s.AdditionalProperties.Schema, false)
	}
	if s.AdditionalItems != nil && s.AdditionalItems.Schema != nil {
		o.schema(ptr+"/additionalItems", s.AdditionalItems.Schema, false)
	}
	for i := range s.AllOf {
		o.schema(ptr+"/allOf/"+itoaSmall(i), &s.AllOf[i], false)
	}
	for i := range s.AnyOf {
		o.schema(ptr+"/anyOf/"+itoaSmall(i), &s.AnyOf[i], false)
	}
	for i := range s.OneOf {
		o.schema(ptr+"/oneOf/"+itoaSmall(i), &s.OneOf[i], false)
	}
	if s.Not != nil {
		o.schema(ptr+"/not", s.Not, false)
	}
}

func (o *oracle) items(ptr string, it *spec.Items, header bool) {
	if it == nil {
		return
	}
	p := ptr + "/items"
	if it.Ref.String() != "" {
		o.itemsRefs[p] = it.Ref
		o.allRefs[p] = it.Ref
		if header {
			o.headerItemsRefs[p] = it.Ref
		} else {
			o.paramItemsRefs[p] = it.Ref
		}
	}
	if it.Pattern != "" {
		o.itemsPatterns[p] = it.Pattern
		o.allPatterns[p] = it.Pattern
	}
	if len(it.Enum) > 0 {
		o.itemsEnums[p] = it.Enum
		o.allEnums[p] = it.Enum
	}
	o.items(p, it.Items, header)
}

func (o *oracle) param(ptr string, p *spec.Parameter, shared bool) {
	if !shared && p.Ref.String() != "" {
		o.paramRefs[ptr] = p.Ref
		o.allRefs[ptr] = p.Ref
	}
	if p.Pattern != "" {
		o.paramPatterns[ptr] = p.Pattern
		o.allPatterns[ptr] = p.Pattern
	}
	if len(p.Enum) > 0 {
		o.paramEnums[ptr] = p.Enum
		o.allEnums[ptr] = p.Enum
	}
	o.items(ptr, p.Items, false)
	if p.Schema != nil {
		o.schema(ptr+"/schema", p.Schema, false)
	}
}

func (o *oracle) response(ptr string, r *spec.Response, shared bool) {
	if !shared && r.Ref.String() != "" {
		o.respRefs[ptr] = r.Ref
		o.allRefs[ptr] = r.Ref
	}
	for name, h := range r.Headers {
		hp := ptr + "/headers/" + name
		if h.Pattern != "" {
			o.headerPatterns[hp] = h.Pattern
			o.allPatterns[hp] = h.Pattern
		}
		if len(h.Enum) > 0 {
			o.headerEnums[hp] = h.Enum
			o.allEnums[hp] = h.Enum
		}
		o.items(hp, h.Items, true)
	}
	if r.Schema != nil {
		o.schema(ptr+"/schema", r.Schema, false)
	}
}

func (o *oracle) operation(ptr string, op *spec.Operation) {
	if op == nil {
		return
	}
	for i := range op.Parameters {
		o.param(ptr+"/parameters/"+itoaSmall(i), &op.Parameters[i], false)
	}
	if op.Responses == nil {
		return
	}
	if op.Responses.Default != nil {
		o.response(ptr+"/responses/default", op.Responses.Default, false)
	}
	for code, r := range op.Responses.StatusCodeResponses {
		r := r
		o.response(ptr+"/responses/"+itoa3(code), &r, false)
	}
}

func itoa3(n int) string {
	return string([]byte{byte('0' + n/100), byte('0' + (n/10)%10), byte('0' + n%10)})
}

func (o *oracle) document(d *spec.Swagger) {
	for name, s := range d.Definitions {
		s := s
		o.schema("#/definitions/"+oesc(name), &s, true)
	}
	for name, p := range d.Parameters {
		p := p
		o.param("#/parameters/"+oesc(name), &p, true)
	}
	for name, r := range d.Responses {
		r := r
		o.response("#/responses/"+oesc(name), &r, true)
	}
	if d.Paths == nil {
		return
	}
	for path, pi := range d.Paths.Paths {
		pi := pi
		pp := "#/paths/" + oesc(path)
		if pi.Ref.String() != "" {
			o.pathItemRefs[pp] = pi.Ref
			o.allRefs[pp] = pi.Ref
		}
		o.operation(pp+"/get", pi.Get)
		o.operation(pp+"/put", pi.Put)
		o.operation(pp+"/post", pi.Post)
		o.operation(pp+"/delete", pi.Delete)
		o.operation(pp+"/options", pi.Options)
		o.operation(pp+"/head", pi.Head)
		o.operation(pp+"/patch", pi.Patch)
		for i := range pi.Parameters {
			o.param(pp+"/parameters/"+itoaSmall(i), &pi.Parameters[i], false)
		}
	}
}

// refStrings: the String() of every value of a ref map (multiplicity preserved)
func refStrings(m map[string]spec.Ref) []string {
	var out []string
	for _, r := range m {
		out = append(out, r.String())
	}
	return out
}
