package analysis

import (
	"github.com/go-openapi/analysis/internal/flatten/replace"
	"github.com/go-openapi/spec"
)

// C04 (addressing lemma): every rewrite step of Flatten addresses its target by a key produced by the analyzer.
// For every key the analyzer produces, replace.UpdateRef / RewriteSchemaToRef / UpdateRefWithSchema must succeed and
// change exactly the addressed position - whatever characters the names on the way contain.
// C12: every schema is indexed under a JSON pointer that resolves to it.

var _ = vrfRegister("vrfH_C04update", vrfH_C04update)
var _ = vrfRegister("vrfH_C04rewrite", vrfH_C04rewrite)
var _ = vrfRegister("vrfH_C12", vrfH_C12)

// c04Walk applies f to every schema position of the document, children first, writing map-held schemas back.
func c04WalkSchema(s *spec.Schema, top bool, f func(s *spec.Schema, top bool)) {
	for k, v := range s.Properties {
		v := v
		c04WalkSchema(&v, false, f)
		s.Properties[k] = v
	}
	for k, v := range s.PatternProperties {
		v := v
		c04WalkSchema(&v, false, f)
		s.PatternProperties[k] = v
	}
	for k, v := range s.Definitions {
		v := v
		c04WalkSchema(&v, false, f)
		s.Definitions[k] = v
	}
	if s.Items != nil {
		if s.Items.Schema != nil {
			c04WalkSchema(s.Items.Schema, false, f)
		}
		for i := range s.Items.Schemas {
			c04WalkSchema(&s.Items.Schemas[i], false, f)
		}
	}
	if s.AdditionalProperties != nil && s.AdditionalProperties.Schema != nil {
		c04WalkSchema(s.AdditionalProperties.Schema, false, f)
	}
	if s.AdditionalItems != nil && s.AdditionalItems.Schema != nil {
		c04WalkSchema(s.AdditionalItems.Schema, false, f)
	}
	for i := range s.AllOf {
		c04WalkSchema(&s.AllOf[i], false, f)
	}
	for i := range s.AnyOf {
		c04WalkSchema(&s.AnyOf[i], false, f)
	}
	for i := range s.OneOf {
		c04WalkSchema(&s.OneOf[i], false, f)
	}
	if s.Not != nil {
		c04WalkSchema(s.Not, false, f)
	}
	f(s, top)
}

func c04WalkParams(ps []spec.Parameter, f func(s *spec.Schema, top bool)) {
	for i := range ps {
		if ps[i].Schema != nil {
			c04WalkSchema(ps[i].Schema, false, f)
		}
	}
}

func c04WalkResponse(r *spec.Response, f func(s *spec.Schema, top bool)) {
	if r.Schema != nil {
		c04WalkSchema(r.Schema, false, f)
	}
}

func c04WalkOp(op *spec.Operation, f func(s *spec.Schema, top bool)) {
	if op == nil {
		return
	}
	c04WalkParams(op.Parameters, f)
	if op.Responses == nil {
		return
	}
	if op.Responses.Default != nil {
		c04WalkResponse(op.Responses.Default, f)
	}
	for code, r := range op.Responses.StatusCodeResponses {
		r := r
		c04WalkResponse(&r, f)
		op.Responses.StatusCodeResponses[code] = r
	}
}

func c04WalkDoc(d *spec.Swagger, f func(s *spec.Schema, top bool)) {
	for k, s := range d.Definitions {
		s := s
		c04WalkSchema(&s, true, f)
		d.Definitions[k] = s
	}
	for k, p := range d.Parameters {
		p := p
		if p.Schema != nil {
			c04WalkSchema(p.Schema, false, f)
		}
		d.Parameters[k] = p
	}
	for k, r := range d.Responses {
		r := r
		c04WalkResponse(&r, f)
		d.Responses[k] = r
	}
	if d.Paths == nil {
		return
	}
	for k, pi := range d.Paths.Paths {
		pi := pi
		c04WalkOp(pi.Get, f)
		c04WalkOp(pi.Put, f)
		c04WalkOp(pi.Post, f)
		c04WalkOp(pi.Delete, f)
		c04WalkOp(pi.Options, f)
		c04WalkOp(pi.Head, f)
		c04WalkOp(pi.Patch, f)
		c04WalkParams(pi.Parameters, f)
		d.Paths.Paths[k] = pi
	}
}

func c04Doc() *spec.Swagger {
	cfg := cfgFromParams()
	cfg.refs, cfg.refLeaf = true, true
	cfg.patterns, cfg.enums = false, false
	return symSwagger(cfg)
}

// UpdateRef on every schema $ref the analyzer reports: afterwards exactly those positions carry the new $ref
func vrfH_C04update() {
	doc := c04Doc()
	newRef := spec.MustCreateRef("#/definitions/replacement")
	want := vrfDeepCopy(doc).(*spec.Swagger)
	c04WalkDoc(want, func(s *spec.Schema, top bool) {
		if s.Ref.String() != "" {
			s.Ref = newRef
		}
	})
	an := New(doc)
	n := 0
	withSchema := vrfParam("withschema", 0) != 0
	for key := range an.references.schemas {
		n++
		var err error
		if withSchema {
			repl := &spec.Schema{}
			repl.Ref = newRef
			err = replace.UpdateRefWithSchema(doc, key, repl)
		} else {
			err = replace.UpdateRef(doc, key, newRef)
		}
		vrfAssert("update-succeeds-on-every-analyzer-key", err == nil)
	}
	if withSchema {
		// the replacing schema carries only the $ref: positions that had a $ref now hold exactly that schema
		c04WalkDoc(want, func(s *spec.Schema, top bool) {
			if s.Ref.String() != "" {
				*s = spec.Schema{SchemaProps: spec.SchemaProps{Ref: newRef}}
			}
		})
	}
	vrfAssert("exactly-the-addressed-positions-changed", vrfDeepEqual(doc, want))
	vrfCover("some-ref-updated", n > 0)
}

// RewriteSchemaToRef on every inline (non top-level) leaf schema the analyzer reports
func vrfH_C04rewrite() {
	doc := c04Doc()
	newRef := spec.MustCreateRef("#/definitions/replacement")
	want := vrfDeepCopy(doc).(*spec.Swagger)
	c04WalkDoc(want, func(s *spec.Schema, top bool) {
		if !top {
			*s = spec.Schema{SchemaProps: spec.SchemaProps{Ref: newRef}}
		}
	})
	an := New(doc)
	n := 0
	for key, sr := range an.allSchemas {
		if sr.TopLevel {
			continue
		}
		n++
		if vrfParam("renderedkeys", 0) != 0 {
			// the key as flattenAnonPointer passes it: the URL-escaped rendering of the entry's $ref
			key = sr.Ref.String()
		}
		err := replace.RewriteSchemaToRef(doc, key, newRef)
		vrfAssert("rewrite-succeeds-on-every-analyzer-key", err == nil)
	}
	vrfAssert("exactly-the-addressed-positions-changed", vrfDeepEqual(doc, want))
	vrfCover("some-schema-rewritten", n > 0)
}

func c12Same(v interface{}, s *spec.Schema) bool {
	switch x := v.(type) {
	case spec.Schema:
		return vrfDeepEqual(x, *s)
	case *spec.Schema:
		return x == s || vrfDeepEqual(*x, *s)
	case *spec.SchemaOrArray:
		return x.Schema == s
	case *spec.SchemaOrBool:
		return x.Schema == s
	}
	return false
}

// every schema of the document is listed exactly once, under a pointer that resolves to it
func vrfH_C12() {
	cfg := cfgFromParams()
	cfg.refs = vrfParam("refs", 0) != 0
	cfg.patterns = true // a distinguishing mark on every schema
	doc := symSwagger(cfg)
	want := newOracle()
	want.document(doc)
	an := New(doc)

	// the key sets are equal (a map lists a key once): every oracle position is listed, and (below) nothing else is
	for key := range want.schemas {
		_, ok := an.allSchemas[key]
		vrfAssert("every-schema-of-the-document-is-listed", ok)
	}
	nTop, nAllOf := 0, 0
	for key, sr := range an.allSchemas {
		ws, ok := want.schemas[key]
		vrfAssert("listed-under-the-pointer-of-a-schema-of-the-document", ok && vrfDeepEqual(*ws, *sr.Schema))
		vrfAssert("top-level-flag", sr.TopLevel == want.topLevel[key])
		if sr.TopLevel {
			nTop++
		}
		v, _, err := sr.Ref.GetPointer().Get(doc)
		vrfAssert("pointer-resolves", err == nil)
		if err == nil {
			vrfAssert("pointer-resolves-to-that-very-schema", c12Same(v, sr.Schema))
		}
		vrfAssert("ref-renders-as-the-key", sr.Ref.GetPointer().String() == key[1:] || key == "#")
	}
	for name := range doc.Definitions {
		sr, ok := an.allSchemas["#/definitions/"+oesc(name)]
		vrfAssert("definitions-are-top-level", ok && sr.TopLevel)
	}
	_ = nTop
	for key := range an.allOfs {
		nAllOf++
		vrfAssert("allOf-flag-only-on-schemas-with-allOf-members", want.allOfs[key])
	}
	for key := range want.allOfs {
		_, ok := an.allOfs[key]
		vrfAssert("every-schema-with-allOf-members-flagged", ok)
	}
	_ = nAllOf
	var all, allOf []SchemaRef
	for _, v := range an.allSchemas {
		all = append(all, v)
	}
	for _, v := range an.allOfs {
		allOf = append(allOf, v)
	}
	vrfAssert("AllDefinitions", vrfSameMultiset(an.AllDefinitions(), all))
	vrfAssert("SchemasWithAllOf", vrfSameMultiset(an.SchemasWithAllOf(), allOf))
	vrfCover("some-schema", want.nSchemas > 0)
	vrfCover("nested-schema", want.nSchemas > len(doc.Definitions))
}
