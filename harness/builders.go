package analysis

import (
	"github.com/go-openapi/jsonpointer"
	"github.com/go-openapi/spec"
)

// Symbolic document builders (DESIGN.md §4). Every optional position has its own presence bit; names are symbolic
// strings over the alphabet; the heap skeleton is concrete. A symCfg selects what is planted and how large the
// skeleton is, so that each harness pays only for the dimensions its property quantifies over.

type symCfg struct {
	refs     bool // plant $ref (each under its own presence bit)
	patterns bool // plant patterns (symbolic, possibly empty)
	enums    bool // plant enums (absent or one opaque value)
	refLeaf  bool // a schema that carries a $ref carries nothing else (as a JSON $ref object is read)
	types    bool // symbolic schema type / format (C20)
	nameLen  int  // max length of symbolic names
	unicode  bool // names over the full alphabet incl. 2-byte UTF-8 (else ASCII part)
	K        int  // entries per map / list
	keywords int  // bit mask of schema keywords that may be present (see kw* below)
	regions  int  // bit mask of document regions (see rg* below)
	methods  int  // bit mask of HTTP methods (1 GET,2 PUT,4 POST,8 DELETE,16 OPTIONS,32 HEAD,64 PATCH)
	depth    int  // nesting depth of schemas
	idepth   int  // nesting depth of simple-schema items
}

const (
	kwProperties = 1 << iota
	kwPatternProperties
	kwDefinitions
	kwItems
	kwTuple
	kwAdditionalProperties
	kwAdditionalItems
	kwAllOf
	kwAnyOf
	kwOneOf
	kwNot
	kwAll = 1<<11 - 1
)

const (
	rgDefinitions = 1 << iota
	rgSharedParams
	rgSharedResponses
	rgPathParams
	rgOpParams
	rgOpResponses
	rgPathItemRef
	rgAll = 1<<7 - 1
)

func cfgFromParams() *symCfg {
	return &symCfg{
		refs:     vrfParam("refs", 0) != 0,
		patterns: vrfParam("patterns", 0) != 0,
		enums:    vrfParam("enums", 0) != 0,
		types:    vrfParam("types", 0) != 0,
		nameLen:  vrfParam("namelen", 2),
		unicode:  vrfParam("unicode", 0) != 0,
		K:        vrfParam("K", 1),
		keywords: vrfParam("keywords", kwAll),
		regions:  vrfParam("regions", rgDefinitions),
		methods:  vrfParam("methods", 1),
		depth:    vrfParam("depth", 1),
		idepth:   vrfParam("idepth", 1),
	}
}

func (cfg *symCfg) name(tag string) string {
	if cfg.unicode {
		return symNameU(tag, cfg.nameLen)
	}
	return symName(tag, cfg.nameLen)
}

// a $ref value that is distinct per position (so that mix-ups between positions are visible)
func symRefFor(tag string) spec.Ref {
	return spec.MustCreateRef("#/definitions/" + jsonpointer.Escape(tag))
}

func (cfg *symCfg) plantSimple(tag string, ref *spec.Ref, pattern *string, enum *[]interface{}) {
	if cfg.refs && ref != nil && vrfBool(tag+".ref") {
		*ref = symRefFor(tag)
	}
	if cfg.patterns {
		*pattern = vrfStr(tag+".pattern", 1)
	}
	if cfg.enums && vrfBool(tag+".enum") {
		*enum = []interface{}{tag}
	}
}

func symSchema(cfg *symCfg, tag string, depth int) spec.Schema {
	var s spec.Schema
	cfg.plantSimple(tag, &s.Ref, &s.Pattern, &s.Enum)
	if depth <= 0 {
		return s
	}
	if cfg.refLeaf && cfg.refs && vrfBool(tag+".ref") {
		return s
	}
	kw := cfg.keywords
	if kw&kwProperties != 0 && vrfBool(tag+".props") {
		s.Properties = map[string]spec.Schema{}
		for i := 0; i < cfg.K; i++ {
			t := tag + ".p" + itoaSmall(i)
			if vrfBool(t) {
				s.Properties[cfg.name(t+".name")] = symSchema(cfg, t, depth-1)
			}
		}
	}
	if kw&kwPatternProperties != 0 && vrfBool(tag+".pprops") {
		s.PatternProperties = map[string]spec.Schema{}
		for i := 0; i < cfg.K; i++ {
			t := tag + ".pp" + itoaSmall(i)
			if vrfBool(t) {
				s.PatternProperties[cfg.name(t+".name")] = symSchema(cfg, t, depth-1)
			}
		}
	}
	if kw&kwDefinitions != 0 && vrfBool(tag+".defs") {
		s.Definitions = map[string]spec.Schema{}
		for i := 0; i < cfg.K; i++ {
			t := tag + ".d" + itoaSmall(i)
			if vrfBool(t) {
				s.Definitions[cfg.name(t+".name")] = symSchema(cfg, t, depth-1)
			}
		}
	}
	if kw&(kwItems|kwTuple) != 0 && vrfBool(tag+".items") {
		if kw&kwTuple != 0 && (kw&kwItems == 0 || vrfBool(tag+".tuple")) {
			s.Items = &spec.SchemaOrArray{Schemas: []spec.Schema{symSchema(cfg, tag+".t0", depth-1), symSchema(cfg, tag+".t1", depth-1)}}
		} else {
			it := symSchema(cfg, tag+".items", depth-1)
			s.Items = &spec.SchemaOrArray{Schema: &it}
		}
	}
	if kw&kwAdditionalProperties != 0 && vrfBool(tag+".addp") {
		if vrfBool(tag + ".addp.schema") {
			ap := symSchema(cfg, tag+".addp", depth-1)
			s.AdditionalProperties = &spec.SchemaOrBool{Allows: true, Schema: &ap}
		} else {
			s.AdditionalProperties = &spec.SchemaOrBool{Allows: vrfBool(tag + ".addp.allows")}
		}
	}
	if kw&kwAdditionalItems != 0 && vrfBool(tag+".addi") {
		if vrfBool(tag + ".addi.schema") {
			ai := symSchema(cfg, tag+".addi", depth-1)
			s.AdditionalItems = &spec.SchemaOrBool{Allows: true, Schema: &ai}
		} else {
			s.AdditionalItems = &spec.SchemaOrBool{Allows: vrfBool(tag + ".addi.allows")}
		}
	}
	if kw&kwAllOf != 0 && vrfBool(tag+".allof") {
		s.AllOf = []spec.Schema{symSchema(cfg, tag+".allof0", depth-1), symSchema(cfg, tag+".allof1", depth-1)}
	}
	if kw&kwAnyOf != 0 && vrfBool(tag+".anyof") {
		s.AnyOf = []spec.Schema{symSchema(cfg, tag+".anyof0", depth-1)}
	}
	if kw&kwOneOf != 0 && vrfBool(tag+".oneof") {
		s.OneOf = []spec.Schema{symSchema(cfg, tag+".oneof0", depth-1)}
	}
	if kw&kwNot != 0 && vrfBool(tag+".not") {
		nt := symSchema(cfg, tag+".not", depth-1)
		s.Not = &nt
	}
	return s
}

func symItems(cfg *symCfg, tag string, depth int) *spec.Items {
	if depth <= 0 || !vrfBool(tag) {
		return nil
	}
	it := &spec.Items{}
	cfg.plantSimple(tag, &it.Ref, &it.Pattern, &it.Enum)
	it.Items = symItems(cfg, tag+".items", depth-1)
	return it
}

// header names are restricted to two concrete, well-behaved names (the analyzer does not escape header names;
// header-name characters outside [A-Za-z0-9-] are outside every claim)
func symHeaders(cfg *symCfg, tag string) map[string]spec.Header {
	if !vrfBool(tag + ".headers") {
		return nil
	}
	hs := map[string]spec.Header{}
	names := []string{"X-A", "X-B"}
	for i := 0; i < cfg.K && i < 2; i++ {
		t := tag + ".h" + itoaSmall(i)
		if vrfBool(t) {
			var h spec.Header
			cfg.plantSimple(t, nil, &h.Pattern, &h.Enum)
			h.Items = symItems(cfg, t+".items", cfg.idepth)
			hs[names[i]] = h
		}
	}
	return hs
}

// symParam: a $ref parameter, a body parameter with a schema, or a simple parameter with items
func symParam(cfg *symCfg, tag string) spec.Parameter {
	var p spec.Parameter
	if cfg.refs && vrfBool(tag+".isref") {
		p.Ref = spec.MustCreateRef("#/parameters/" + jsonpointer.Escape(tag))
		return p
	}
	p.Name = tag
	if vrfBool(tag + ".body") {
		p.In = "body"
		sch := symSchema(cfg, tag+".schema", cfg.depth)
		p.Schema = &sch
		return p
	}
	p.In = "query"
	cfg.plantSimple(tag, nil, &p.Pattern, &p.Enum)
	p.Items = symItems(cfg, tag+".items", cfg.idepth)
	return p
}

func symParams(cfg *symCfg, tag string) []spec.Parameter {
	if !vrfBool(tag + ".parameters") {
		return nil
	}
	ps := []spec.Parameter{}
	for i := 0; i < cfg.K; i++ {
		t := tag + ".param" + itoaSmall(i)
		if vrfBool(t) {
			ps = append(ps, symParam(cfg, t))
		}
	}
	return ps
}

func symResponse(cfg *symCfg, tag string) spec.Response {
	var r spec.Response
	if cfg.refs && vrfBool(tag+".isref") {
		r.Ref = spec.MustCreateRef("#/responses/" + jsonpointer.Escape(tag))
		if cfg.refLeaf || !vrfBool(tag+".isref.siblings") {
			return r
		}
		// a loadable document may carry inline content beside a $ref: it is still part of the document
	}
	r.Description = tag
	r.Headers = symHeaders(cfg, tag)
	if vrfBool(tag + ".schema") {
		sch := symSchema(cfg, tag+".schema", cfg.depth)
		r.Schema = &sch
	}
	return r
}

func symOperation(cfg *symCfg, tag string) *spec.Operation {
	if !vrfBool(tag + ".present") {
		return nil
	}
	op := &spec.Operation{}
	if cfg.regions&rgOpParams != 0 {
		op.Parameters = symParams(cfg, tag)
	}
	if cfg.regions&rgOpResponses != 0 && vrfBool(tag+".responses") {
		op.Responses = &spec.Responses{}
		if vrfBool(tag + ".default") {
			d := symResponse(cfg, tag+".default")
			op.Responses.Default = &d
		}
		if vrfBool(tag + ".codes") {
			op.Responses.StatusCodeResponses = map[int]spec.Response{}
			if vrfBool(tag + ".code0") {
				op.Responses.StatusCodeResponses[vrfInt(tag+".code0.v", 200, 201)] = symResponse(cfg, tag+".code0")
			}
		}
	}
	return op
}

func symPathItem(cfg *symCfg, tag string) spec.PathItem {
	var pi spec.PathItem
	if cfg.refs && cfg.regions&rgPathItemRef != 0 && vrfBool(tag+".ref") {
		pi.Ref = spec.MustCreateRef("#/x-pathitems/" + jsonpointer.Escape(tag))
	}
	m := cfg.methods
	if m&1 != 0 {
		pi.Get = symOperation(cfg, tag+".get")
	}
	if m&2 != 0 {
		pi.Put = symOperation(cfg, tag+".put")
	}
	if m&4 != 0 {
		pi.Post = symOperation(cfg, tag+".post")
	}
	if m&8 != 0 {
		pi.Delete = symOperation(cfg, tag+".delete")
	}
	if m&16 != 0 {
		pi.Options = symOperation(cfg, tag+".options")
	}
	if m&32 != 0 {
		pi.Head = symOperation(cfg, tag+".head")
	}
	if m&64 != 0 {
		pi.Patch = symOperation(cfg, tag+".patch")
	}
	if cfg.regions&rgPathParams != 0 {
		pi.Parameters = symParams(cfg, tag)
	}
	return pi
}

// symPathName: a path template "/" + name over the alphabet (braces allowed)
func (cfg *symCfg) pathName(tag string) string {
	return "/" + cfg.name(tag)
}

func symSwagger(cfg *symCfg) *spec.Swagger {
	doc := &spec.Swagger{}
	if cfg.regions&rgDefinitions != 0 && vrfBool("definitions") {
		doc.Definitions = spec.Definitions{}
		for i := 0; i < cfg.K; i++ {
			t := "def" + itoaSmall(i)
			if vrfBool(t) {
				doc.Definitions[cfg.name(t+".name")] = symSchema(cfg, t, cfg.depth)
			}
		}
	}
	if cfg.regions&rgSharedParams != 0 && vrfBool("parameters") {
		doc.Parameters = map[string]spec.Parameter{}
		for i := 0; i < cfg.K; i++ {
			t := "sparam" + itoaSmall(i)
			if vrfBool(t) {
				p := symParam(cfg, t)
				p.Ref = spec.Ref{} // a $ref on the shared parameter object itself is not generated
				doc.Parameters[cfg.name(t+".name")] = p
			}
		}
	}
	if cfg.regions&rgSharedResponses != 0 && vrfBool("responses") {
		doc.Responses = map[string]spec.Response{}
		for i := 0; i < cfg.K; i++ {
			t := "sresp" + itoaSmall(i)
			if vrfBool(t) {
				r := symResponse(cfg, t)
				r.Ref = spec.Ref{}
				doc.Responses[cfg.name(t+".name")] = r
			}
		}
	}
	if cfg.regions&(rgPathParams|rgOpParams|rgOpResponses|rgPathItemRef) != 0 && vrfBool("paths") {
		doc.Paths = &spec.Paths{}
		if vrfBool("paths.map") {
			doc.Paths.Paths = map[string]spec.PathItem{}
			if vrfBool("path0") {
				doc.Paths.Paths[cfg.pathName("path0.name")] = symPathItem(cfg, "path0")
			}
		}
	}
	return doc
}
