package analysis

import "github.com/go-openapi/spec"

// C17: Mixin is an ordered, primary-wins merge that reports every collision.
// C18: Mixin keeps operation ids unique.

var _ = vrfRegister("vrfH_C17", vrfH_C17)

func c17Ext(tag string) spec.Extensions {
	if !vrfBool(tag + ".ext") {
		return nil
	}
	m := spec.Extensions{}
	if vrfBool(tag + ".ext.0") {
		// extension values are arbitrary JSON: a string here ...
		m[vrfStr(tag+".ext.0.key", 1)] = tag + ".x0"
	}
	if vrfBool(tag + ".ext.1") {
		// ... and a number there (a merge must not care about the type of the value)
		m[vrfStr(tag+".ext.1.key", 1)] = len(tag)
	}
	return m
}

func c17Strings(tag string) []string {
	if !vrfBool(tag) {
		return nil
	}
	out := []string{}
	if vrfBool(tag + ".0") {
		out = append(out, vrfStr(tag+".0.v", 1))
	}
	if vrfBool(tag + ".1") {
		out = append(out, vrfStr(tag+".1.v", 1))
	}
	return out
}

// sections is a bit mask selecting which parts of the document are symbolic (the others stay absent):
// 1 extensions/host/basePath/info/externalDocs, 2 consumes/produces/schemes, 4 tags/security,
// 8 securityDefinitions/definitions, 16 parameters/responses, 32 paths.
func c17Doc(tag string, K int, sections int) *spec.Swagger {
	d := &spec.Swagger{}
	on := func(bit int) bool { return sections&bit != 0 }
	if on(1) {
		d.Extensions = c17Ext(tag)
		d.Host = vrfStr(tag+".host", 1)
		d.BasePath = vrfStr(tag+".basePath", 1)
	}
	if on(1) && vrfBool(tag+".info") {
		in := &spec.Info{}
		in.Extensions = c17Ext(tag + ".info")
		in.Description = vrfStr(tag+".info.description", 1)
		in.Title = vrfStr(tag+".info.title", 1)
		in.TermsOfService = vrfStr(tag+".info.tos", 1)
		in.Version = vrfStr(tag+".info.version", 1)
		if vrfBool(tag + ".info.contact") {
			c := &spec.ContactInfo{}
			c.Extensions = c17Ext(tag + ".info.contact")
			c.Name = vrfStr(tag+".info.contact.name", 1)
			c.URL = vrfStr(tag+".info.contact.url", 1)
			c.Email = vrfStr(tag+".info.contact.email", 1)
			in.Contact = c
		}
		if vrfBool(tag + ".info.license") {
			l := &spec.License{}
			l.Extensions = c17Ext(tag + ".info.license")
			l.Name = vrfStr(tag+".info.license.name", 1)
			l.URL = vrfStr(tag+".info.license.url", 1)
			in.License = l
		}
		d.Info = in
	}
	if on(1) && vrfBool(tag+".externalDocs") {
		d.ExternalDocs = &spec.ExternalDocumentation{Description: vrfStr(tag+".externalDocs.description", 1), URL: vrfStr(tag+".externalDocs.url", 1)}
	}
	if on(2) {
		d.Consumes = c17Strings(tag + ".consumes")
		d.Produces = c17Strings(tag + ".produces")
		d.Schemes = c17Strings(tag + ".schemes")
	}
	if on(4) && vrfBool(tag+".tags") {
		d.Tags = []spec.Tag{}
		for i := 0; i < K; i++ {
			t := tag + ".tags." + itoaSmall(i)
			if vrfBool(t) {
				tg := spec.Tag{}
				tg.Name = vrfStr(t+".name", 1)
				tg.Description = t
				d.Tags = append(d.Tags, tg)
			}
		}
	}
	if on(4) && vrfBool(tag+".security") {
		d.Security = []map[string][]string{}
		for i := 0; i < K; i++ {
			t := tag + ".security." + itoaSmall(i)
			if vrfBool(t) {
				req := map[string][]string{}
				if vrfBool(t + ".scoped") {
					req[vrfStr(t+".scheme", 1)] = []string{vrfStr(t+".scope", 1)}
				} else {
					req[vrfStr(t+".scheme", 1)] = nil
				}
				d.Security = append(d.Security, req)
			}
		}
	}
	if on(8) && vrfBool(tag+".securityDefinitions") {
		d.SecurityDefinitions = spec.SecurityDefinitions{}
		for i := 0; i < K; i++ {
			t := tag + ".securityDefinitions." + itoaSmall(i)
			if vrfBool(t) {
				var sch *spec.SecurityScheme
				if vrfBool(t + ".nonnil") {
					sch = &spec.SecurityScheme{}
					sch.Description = t
				}
				d.SecurityDefinitions[vrfStr(t+".key", 1)] = sch
			}
		}
	}
	if on(8) && vrfBool(tag+".definitions") {
		d.Definitions = spec.Definitions{}
		for i := 0; i < K; i++ {
			t := tag + ".definitions." + itoaSmall(i)
			if vrfBool(t) {
				var s spec.Schema
				s.Description = t
				d.Definitions[vrfStr(t+".key", 1)] = s
			}
		}
	}
	if on(16) && vrfBool(tag+".parameters") {
		d.Parameters = map[string]spec.Parameter{}
		for i := 0; i < K; i++ {
			t := tag + ".parameters." + itoaSmall(i)
			if vrfBool(t) {
				var p spec.Parameter
				p.Description = t
				d.Parameters[vrfStr(t+".key", 1)] = p
			}
		}
	}
	if on(16) && vrfBool(tag+".responses") {
		d.Responses = map[string]spec.Response{}
		for i := 0; i < K; i++ {
			t := tag + ".responses." + itoaSmall(i)
			if vrfBool(t) {
				var r spec.Response
				r.Description = t
				d.Responses[vrfStr(t+".key", 1)] = r
			}
		}
	}
	if on(32) && vrfBool(tag+".paths") {
		d.Paths = &spec.Paths{}
		if vrfBool(tag + ".paths.map") {
			d.Paths.Paths = map[string]spec.PathItem{}
			for i := 0; i < K; i++ {
				t := tag + ".paths." + itoaSmall(i)
				if vrfBool(t) {
					var pi spec.PathItem
					op := &spec.Operation{}
					op.ID = t // concrete, unique: operation ids are the subject of C18
					op.Description = t
					pi.Get = op
					d.Paths.Paths[vrfStr(t+".key", 1)] = pi
				}
			}
		}
	}
	return d
}

// ---- reference model written from the statement of C17 ----

type c17Count struct{ n int }

func c17MergeExt(p, m spec.Extensions, cnt *c17Count) spec.Extensions {
	if p == nil {
		return m
	}
	for k, v := range m {
		if _, ok := p[k]; ok {
			cnt.n++
		} else {
			p[k] = v
		}
	}
	return p
}

func c17Fill(p, m string) string {
	if p == "" {
		return m
	}
	return p
}

func c17UnionStrings(p, m []string) []string {
	for _, v := range m {
		found := false
		for _, w := range p {
			if w == v {
				found = true
			}
		}
		if !found {
			p = append(p, v)
		}
	}
	return p
}

func c17SameReq(a, b map[string][]string) bool {
	if (a == nil) != (b == nil) || len(a) != len(b) {
		return false
	}
	for k, v := range a {
		w, ok := b[k]
		if !ok || (v == nil) != (w == nil) || len(v) != len(w) {
			return false
		}
		for i := range v {
			if v[i] != w[i] {
				return false
			}
		}
	}
	return true
}

// c17Model merges m into p (p already normalised) and counts collisions.
func c17Model(p *spec.Swagger, m *spec.Swagger, cnt *c17Count) {
	p.Extensions = c17MergeExt(p.Extensions, m.Extensions, cnt)
	p.Host = c17Fill(p.Host, m.Host)
	p.BasePath = c17Fill(p.BasePath, m.BasePath)
	if p.Info == nil {
		p.Info = m.Info
	} else if m.Info != nil {
		p.Info.Extensions = c17MergeExt(p.Info.Extensions, m.Info.Extensions, cnt)
		p.Info.Description = c17Fill(p.Info.Description, m.Info.Description)
		p.Info.Title = c17Fill(p.Info.Title, m.Info.Title)
		p.Info.TermsOfService = c17Fill(p.Info.TermsOfService, m.Info.TermsOfService)
		p.Info.Version = c17Fill(p.Info.Version, m.Info.Version)
		if p.Info.Contact == nil {
			p.Info.Contact = m.Info.Contact
		} else if m.Info.Contact != nil {
			p.Info.Contact.Extensions = c17MergeExt(p.Info.Contact.Extensions, m.Info.Contact.Extensions, cnt)
			p.Info.Contact.Name = c17Fill(p.Info.Contact.Name, m.Info.Contact.Name)
			p.Info.Contact.URL = c17Fill(p.Info.Contact.URL, m.Info.Contact.URL)
			p.Info.Contact.Email = c17Fill(p.Info.Contact.Email, m.Info.Contact.Email)
		}
		if p.Info.License == nil {
			p.Info.License = m.Info.License
		} else if m.Info.License != nil {
			p.Info.License.Extensions = c17MergeExt(p.Info.License.Extensions, m.Info.License.Extensions, cnt)
			p.Info.License.Name = c17Fill(p.Info.License.Name, m.Info.License.Name)
			p.Info.License.URL = c17Fill(p.Info.License.URL, m.Info.License.URL)
		}
	}
	if p.ExternalDocs == nil {
		p.ExternalDocs = m.ExternalDocs
	} else if m.ExternalDocs != nil {
		p.ExternalDocs.Description = c17Fill(p.ExternalDocs.Description, m.ExternalDocs.Description)
		p.ExternalDocs.URL = c17Fill(p.ExternalDocs.URL, m.ExternalDocs.URL)
	}
	p.Consumes = c17UnionStrings(p.Consumes, m.Consumes)
	p.Produces = c17UnionStrings(p.Produces, m.Produces)
	p.Schemes = c17UnionStrings(p.Schemes, m.Schemes)
	for _, t := range m.Tags {
		found := false
		for _, u := range p.Tags {
			if u.Name == t.Name {
				found = true
			}
		}
		if found {
			cnt.n++
		} else {
			p.Tags = append(p.Tags, t)
		}
	}
	for _, r := range m.Security {
		found := false
		for _, q := range p.Security {
			if c17SameReq(q, r) {
				found = true
			}
		}
		if found {
			cnt.n++
		} else {
			p.Security = append(p.Security, r)
		}
	}
	for k, v := range m.SecurityDefinitions {
		if _, ok := p.SecurityDefinitions[k]; ok {
			cnt.n++
		} else {
			p.SecurityDefinitions[k] = v
		}
	}
	for k, v := range m.Definitions {
		if _, ok := p.Definitions[k]; ok {
			cnt.n++
		} else {
			p.Definitions[k] = v
		}
	}
	if m.Paths != nil {
		for k, v := range m.Paths.Paths {
			if _, ok := p.Paths.Paths[k]; ok {
				cnt.n++
			} else {
				p.Paths.Paths[k] = v
			}
		}
	}
	for k, v := range m.Parameters {
		if _, ok := p.Parameters[k]; ok {
			cnt.n++
		} else {
			p.Parameters[k] = v
		}
	}
	for k, v := range m.Responses {
		if _, ok := p.Responses[k]; ok {
			cnt.n++
		} else {
			p.Responses[k] = v
		}
	}
}

// normal form: absent keyed sections and lists of the primary become empty ones (absent == zero value)
func c17Normalise(p *spec.Swagger) {
	if p.SecurityDefinitions == nil {
		p.SecurityDefinitions = spec.SecurityDefinitions{}
	}
	if p.Security == nil {
		p.Security = []map[string][]string{}
	}
	if p.Produces == nil {
		p.Produces = []string{}
	}
	if p.Consumes == nil {
		p.Consumes = []string{}
	}
	if p.Tags == nil {
		p.Tags = []spec.Tag{}
	}
	if p.Schemes == nil {
		p.Schemes = []string{}
	}
	if p.Paths == nil {
		p.Paths = &spec.Paths{}
	}
	if p.Paths.Paths == nil {
		p.Paths.Paths = map[string]spec.PathItem{}
	}
	if p.Definitions == nil {
		p.Definitions = spec.Definitions{}
	}
	if p.Parameters == nil {
		p.Parameters = map[string]spec.Parameter{}
	}
	if p.Responses == nil {
		p.Responses = map[string]spec.Response{}
	}
}

func vrfH_C17() {
	K := vrfParam("K", 2)
	nm := vrfParam("mixins", 2)
	sections := vrfParam("sections", 63)
	primary := c17Doc("p", K, sections)
	var mixins []*spec.Swagger
	for i := 0; i < nm; i++ {
		mixins = append(mixins, c17Doc("m"+itoaSmall(i), K, sections))
	}
	// the model works on private copies
	want := vrfDeepCopy(primary).(*spec.Swagger)
	c17Normalise(want)
	cnt := &c17Count{}
	for _, m := range mixins {
		c17Model(want, vrfDeepCopy(m).(*spec.Swagger), cnt)
	}

	var got []string
	panicked := vrfPanics(func() { got = Mixin(primary, mixins...) })
	vrfAssert("mixin-never-panics", !panicked)
	if !panicked {
		vrfAssert("merged-document-equals-model", vrfDeepEqual(primary, want))
		vrfAssert("one-entry-per-collision", len(got) == cnt.n)
	}
	if sections&^2 != 0 {
		vrfCover("some-collision", !panicked && cnt.n > 0)
	}
	if sections&2 != 0 {
		vrfCover("list-element-of-mixin-already-in-primary", !panicked && len(mixins[0].Consumes) > 0 && len(want.Consumes) == len(primary.Consumes) && len(primary.Consumes) == 1)
	}
	vrfCover("no-collision", !panicked && cnt.n == 0)
	vrfCover("primary-without-paths-and-info", !panicked && want.Info == nil)
}
