package analysis

import "github.com/go-openapi/spec"

// C18: Mixin keeps operation ids unique (all seven methods, symbolic ids, possibly empty).

var _ = vrfRegister("vrfH_C18", vrfH_C18)

func c18Op(tag string, idLen int) *spec.Operation {
	if !vrfBool(tag + ".present") {
		return nil
	}
	op := &spec.Operation{}
	op.ID = vrfStr(tag+".id", idLen)
	if vrfParam("synthetic", 0) != 0 && vrfBool(tag+".id.synthetic") {
		// an id spelled like the name the analyzer gives to an operation without id ("GET /p0" is the primary's first path)
		op.ID = "GET /p0"
	}
	return op
}

func c18PathItem(tag string, methods int, idLen int) spec.PathItem {
	var pi spec.PathItem
	if methods&1 != 0 {
		pi.Get = c18Op(tag+".get", idLen)
	}
	if methods&2 != 0 {
		pi.Put = c18Op(tag+".put", idLen)
	}
	if methods&4 != 0 {
		pi.Post = c18Op(tag+".post", idLen)
	}
	if methods&8 != 0 {
		pi.Delete = c18Op(tag+".delete", idLen)
	}
	if methods&16 != 0 {
		pi.Options = c18Op(tag+".options", idLen)
	}
	if methods&32 != 0 {
		pi.Head = c18Op(tag+".head", idLen)
	}
	if methods&64 != 0 {
		pi.Patch = c18Op(tag+".patch", idLen)
	}
	return pi
}

func c18Ops(pi spec.PathItem) []*spec.Operation {
	return []*spec.Operation{pi.Get, pi.Put, pi.Post, pi.Delete, pi.Options, pi.Head, pi.Patch}
}

// one slot per (document, path, method): op is nil when the operation is absent
type c18Slot struct {
	op      *spec.Operation
	old     string
	doc     int
	skipped bool // the path item of this operation collides with an existing path and is not merged
}

func c18Doc(tag string, doc int, paths int, methods int, idLen int, slots []c18Slot) (*spec.Swagger, []c18Slot) {
	d := &spec.Swagger{}
	d.Paths = &spec.Paths{Paths: map[string]spec.PathItem{}}
	for i := 0; i < paths; i++ {
		// concrete path keys, distinct per document; with collide=1 a mixin's first path may reuse the primary's
		// first path key "/p0" (that path item is then skipped by Mixin: first document wins, C17)
		pi := c18PathItem(tag+".path"+itoaSmall(i), methods, idLen)
		key := "/" + tag + itoaSmall(i)
		skipped := false
		if doc > 0 && i == 0 && vrfParam("collide", 0) != 0 && vrfBool(tag+".path0.sameAsPrimary") {
			key = "/p0"
			skipped = true
		}
		d.Paths.Paths[key] = pi
		for _, op := range c18Ops(pi) {
			sl := c18Slot{op: op, doc: doc, skipped: skipped}
			if op != nil {
				sl.old = op.ID
			}
			slots = append(slots, sl)
		}
	}
	return d, slots
}

func vrfH_C18() {
	paths := vrfParam("paths", 1)
	methods := vrfParam("methods", 127)
	idLen := vrfParam("idlen", 1)
	nm := vrfParam("mixins", 1)
	var slots []c18Slot
	var primary *spec.Swagger
	primary, slots = c18Doc("p", 0, paths, methods, idLen, slots)
	var mixins []*spec.Swagger
	for i := 0; i < nm; i++ {
		var m *spec.Swagger
		m, slots = c18Doc("m"+itoaSmall(i), i+1, paths, methods, idLen, slots)
		mixins = append(mixins, m)
	}
	// precondition of C18: ids unique within each document; no id has the form <other id>Mixin<N>
	for i := range slots {
		for j := range slots {
			x, y := slots[i], slots[j]
			if x.op == nil || y.op == nil {
				continue
			}
			if i < j && x.doc == y.doc {
				vrfAssume(x.old == "" || x.old != y.old)
			}
			for n := 0; n < nm; n++ {
				vrfAssume(x.old == "" || x.old != y.old+"Mixin"+itoaSmall(n))
			}
		}
	}

	Mixin(primary, mixins...)

	// every operation is still there (operation objects are shared with the mixins), under its path and method
	for d := 0; d <= nm; d++ {
		tag := "p"
		if d > 0 {
			tag = "m" + itoaSmall(d-1)
		}
		for i := 0; i < paths; i++ {
			pi, ok := primary.Paths.Paths["/"+tag+itoaSmall(i)]
			if slots[(d*paths+i)*7].skipped {
				vrfAssert("skipped-path-not-merged", !ok)
				continue
			}
			vrfAssert("path-present", ok)
			for k, op := range c18Ops(pi) {
				vrfAssert("operation-kept-in-place", op == slots[(d*paths+i)*7+k].op)
			}
		}
	}
	renamed := false
	for i, x := range slots {
		if x.op == nil || x.skipped {
			continue // operations of a skipped path item are not part of the merged document
		}
		for j, y := range slots {
			if j > i && y.op != nil && !y.skipped {
				vrfAssert("non-empty-ids-pairwise-distinct", x.op.ID == "" || x.op.ID != y.op.ID)
			}
		}
		if x.old == "" {
			vrfAssert("operation-without-id-keeps-none", x.op.ID == "")
		}
		if x.op.ID != x.old {
			renamed = true
			isSuffixed := false
			for n := 0; n < nm; n++ {
				if x.op.ID == x.old+"Mixin"+itoaSmall(n) {
					isSuffixed = true
				}
			}
			vrfAssert("changed-only-by-Mixin-suffix", isSuffixed)
			others := false
			for j, y := range slots {
				if j != i && y.op != nil && !y.skipped && y.old == x.old {
					others = true
				}
			}
			vrfAssert("changed-only-on-collision", others)
		}
	}
	vrfCover("some-id-renamed", renamed)
	if vrfParam("collide", 0) != 0 {
		vrfCover("a-mixin-path-item-is-skipped", slots[7*paths].skipped)
	}
	vrfCover("operation-without-id-in-mixin", slots[7*paths].op != nil && slots[7*paths].old == "")
}
