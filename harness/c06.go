package analysis

import (
	"github.com/go-openapi/jsonpointer"
	"github.com/go-openapi/spec"
)

// C06: RemoveUnused removes exactly what nothing refers to (phase-inductive: steps 3 and 7 of Flatten are run from
// an arbitrary document in flattened normal form, which is what the earlier steps establish by C02).

var _ = vrfRegister("vrfH_C06", vrfH_C06)

func c06Ref(name string) spec.Schema {
	var s spec.Schema
	s.Ref = spec.MustCreateRef("#/definitions/" + jsonpointer.Escape(name))
	return s
}

func c06Target(s *spec.Schema) (string, bool) {
	if s == nil || s.Ref.String() == "" {
		return "", false
	}
	toks := s.Ref.GetPointer().DecodedTokens()
	if len(toks) != 2 || toks[0] != "definitions" {
		return "", false
	}
	return toks[1], true
}

func vrfH_C06() {
	n := vrfParam("defs", 2)
	nameLen := vrfParam("namelen", 2)
	unicode := vrfParam("unicode", 0) != 0
	var names []string
	for i := 0; i < n; i++ {
		var nm string
		if unicode {
			nm = symNameU("def"+itoaSmall(i)+".name", nameLen)
		} else {
			nm = symName("def"+itoaSmall(i)+".name", nameLen)
		}
		for _, o := range names {
			vrfAssume(o != nm)
		}
		names = append(names, nm)
	}
	doc := &spec.Swagger{}
	doc.Definitions = spec.Definitions{}
	// edge[i][j]: definition i refers to definition j (as a property, as items, as an allOf member, as additionalItems, or as additionalProperties beside properties)
	edge := make([][]bool, n)
	for i := 0; i < n; i++ {
		edge[i] = make([]bool, n)
		var s spec.Schema
		s.Description = "def" + itoaSmall(i)
		if vrfParam("enums", 0) != 0 {
			s.Enum = []interface{}{"def" + itoaSmall(i)} // indexed by the analyzer: the entry must go with the definition
		}
		for j := 0; j < n; j++ {
			t := "def" + itoaSmall(i) + ".refs.def" + itoaSmall(j)
			if !vrfBool(t) {
				continue
			}
			edge[i][j] = true
			r := c06Ref(names[j])
			kind := (i + j + vrfParam("edgeshift", 0)) % 4 // distinct holder kind for each target j of one definition (n <= 4)
			if vrfParam("edgeshift", 0) >= 4 && kind == 0 {
				kind = 4
			}
			switch kind {
			case 4:
				// additionalProperties of an object that also declares properties
				if s.Properties == nil {
					s.Properties = map[string]spec.Schema{}
				}
				s.Properties["id"] = spec.Schema{}
				s.AdditionalProperties = &spec.SchemaOrBool{Allows: true, Schema: &r}
			case 0:
				if s.Properties == nil {
					s.Properties = map[string]spec.Schema{}
				}
				s.Properties["p"+itoaSmall(j)] = r
			case 1:
				s.Items = &spec.SchemaOrArray{Schema: &r}
			case 2:
				s.AllOf = append(s.AllOf, r)
			case 3:
				// additionalItems without items: a position an analyzer could forget
				s.AdditionalItems = &spec.SchemaOrBool{Allows: true, Schema: &r}
			}
		}
		doc.Definitions[names[i]] = s
	}
	// one operation: body parameter and 200 response, each optionally a $ref to one definition
	op := &spec.Operation{}
	opRefs := make([]bool, n)
	for j := 0; j < n; j++ {
		if vrfBool("op.param.refs.def" + itoaSmall(j)) {
			opRefs[j] = true
			var p spec.Parameter
			p.Name, p.In = "body"+itoaSmall(j), "body"
			r := c06Ref(names[j])
			p.Schema = &r
			op.Parameters = append(op.Parameters, p)
		}
	}
	respRefs := make([]bool, n)
	op.Responses = &spec.Responses{}
	op.Responses.StatusCodeResponses = map[int]spec.Response{}
	for j := 0; j < n; j++ {
		if vrfBool("op.response.refs.def" + itoaSmall(j)) {
			respRefs[j] = true
			var resp spec.Response
			resp.Description = "ok"
			r := c06Ref(names[j])
			resp.Schema = &r
			op.Responses.StatusCodeResponses[200+j] = resp
		}
	}
	var pi spec.PathItem
	pi.Get = op
	doc.Paths = &spec.Paths{Paths: map[string]spec.PathItem{"/a": pi}}
	// unreferenced shared parameter / response (what step 1 leaves behind once expanded)
	if vrfBool("shared.parameter") {
		doc.Parameters = map[string]spec.Parameter{"sp": {}}
	}
	if vrfBool("shared.response") {
		doc.Responses = map[string]spec.Response{"sr": {}}
	}
	pathsBefore := vrfDeepCopy(doc.Paths).(*spec.Paths)

	opts := FlattenOpts{Spec: New(doc), BasePath: "/x/root.json", Minimal: true, RemoveUnused: true}
	removeUnusedShared(&opts)
	removeUnused(&opts)

	vrfAssert("shared-parameters-and-responses-empty", len(doc.Parameters) == 0 && len(doc.Responses) == 0)
	vrfAssert("operations-unchanged", vrfDeepEqual(doc.Paths, pathsBefore))
	for j := 0; j < n; j++ {
		_, kept := doc.Definitions[names[j]]
		// who still refers to definition j afterwards
		referred := opRefs[j] || respRefs[j]
		for i := 0; i < n; i++ {
			if _, ok := doc.Definitions[names[i]]; ok && edge[i][j] {
				referred = true
			}
		}
		vrfAssert("no-dangling-ref", kept || !referred)
		vrfAssert("every-remaining-definition-is-referred-to", !kept || referred)
	}
	vrfAssert("only-original-definitions-remain", len(doc.Definitions) <= n)
	for k := range doc.Definitions {
		known := false
		for _, nm := range names {
			if nm == k {
				known = true
			}
		}
		vrfAssert("no-definition-invented", known)
	}
	// C10 for this phase: the analyzer that was passed in answers like a fresh analysis
	vrfAssert("analyzer-in-sync", vrfDeepEqual(opts.Spec, New(doc)))

	if n >= 2 {
		vrfCover("chain-becomes-unused-after-a-removal", !opRefs[0] && !respRefs[0] && edge[0][1] && !opRefs[1] && !respRefs[1] && !edge[1][1] && !edge[1][0] && !edge[0][0])
		vrfCover("used-name-with-slash", opRefs[0] && len(names[0]) > 0 && names[0][0] == '/')
		vrfCover("used-name-with-space", respRefs[0] && len(names[0]) > 0 && names[0][0] == ' ')
		vrfCover("unused-name-with-tilde", !opRefs[1] && !respRefs[1] && !edge[0][1] && !edge[1][1] && len(names[1]) > 0 && names[1][0] == '~')
	}
}
