package analysis

import (
	"strings"

	"github.com/go-openapi/spec"
)

// C03 (naming part): names created by Flatten never equal an existing definition name, not even up to letter case.
// uniqifyName is the function both importNewRef and InlineSchemaNamer.Name call immediately before saving a definition.

var _ = vrfRegister("vrfH_C03name", vrfH_C03name)

func c03ASCII(s string) bool {
	for i := 0; i < len(s); i++ {
		if s[i] < 0x20 || s[i] > 0x7e {
			return false
		}
	}
	return true
}

var c03Suffixes = []string{"", "OAIGen", "oaigen", "OAIGen1", "oaiGEN2"}

func vrfH_C03name() {
	n := vrfParam("defs", 3)
	baseLen := vrfParam("baselen", 2)
	name := vrfStr("name", baseLen)
	vrfAssume(c03ASCII(name))
	defs := spec.Definitions{}
	var keys []string
	for i := 0; i < n; i++ {
		t := "def" + itoaSmall(i)
		if !vrfBool(t) {
			continue
		}
		// existing names: a short base, optionally followed by what Flatten itself would append
		b := vrfStr(t+".base", baseLen)
		vrfAssume(c03ASCII(b))
		k := b + c03Suffixes[vrfInt(t+".suffix", 0, len(c03Suffixes)-1)]
		vrfAssume(k != "")
		defs[k] = spec.Schema{}
		keys = append(keys, k)
	}
	before := len(defs)

	r, gen := uniqifyName(defs, name)

	_, exists := defs[r]
	vrfAssert("new-name-is-not-an-existing-definition", !exists)
	for _, k := range keys {
		vrfAssert("new-name-differs-from-every-definition-even-up-to-letter-case", !strings.EqualFold(k, r))
	}
	vrfAssert("flagged-as-generated-iff-the-name-was-changed", gen == (r != name || name == ""))
	vrfAssert("definitions-untouched", len(defs) == before)
	vrfAssert("result-non-empty", r != "")
	vrfCover("collision-up-to-case", r != name && name != "")
	vrfCover("second-level-collision", r != name && r != name+"OAIGen" && name != "")
}
