package analysis

import "github.com/go-openapi/spec"

// C16: analysis is read-only, copy-safe and safe for concurrent readers.

var _ = vrfRegister("vrfH_C16frame", vrfH_C16frame)
var _ = vrfRegister("vrfH_C16clone", vrfH_C16clone)

func c16Doc() *spec.Swagger {
	cfg := cfgFromParams()
	cfg.refs, cfg.patterns, cfg.enums = true, true, true
	doc := symSwagger(cfg)
	doc.Consumes = c14Strings("consumes", 1)
	doc.Produces = c14Strings("produces", 1)
	doc.Security = c14Security("security")
	if vrfBool("securityDefinitions") {
		doc.SecurityDefinitions = spec.SecurityDefinitions{"k": &spec.SecurityScheme{}}
	}
	if doc.Paths != nil {
		for k, pi := range doc.Paths.Paths {
			if vrfParam("sparecap", 0) != 0 && pi.Parameters != nil {
				// a decoder hands out slices with spare capacity (3 elements: capacity 4): same content, room for more
				q := make([]spec.Parameter, cfg.K+1)
				for i := range pi.Parameters {
					q[i] = pi.Parameters[i]
				}
				pi.Parameters = q[:len(pi.Parameters)]
				doc.Paths.Paths[k] = pi
			}
			if pi.Get != nil {
				pi.Get.ID = vrfStr("get.id", 1)
				pi.Get.Security = c14Security("get.security")
				pi.Get.Consumes = c14Strings("get.consumes", 1)
			}
		}
	}
	return doc
}

// c16Queries calls every public query method of the analyzer with symbolic arguments.
func c16Queries(an *Spec, doc *spec.Swagger, method, path, id string) {
	an.Operations()
	an.AllPaths()
	an.OperationIDs()
	an.OperationMethodPaths()
	an.RequiredConsumes()
	an.RequiredProduces()
	an.RequiredSecuritySchemes()
	an.SchemasWithAllOf()
	an.AllDefinitions()
	an.AllDefinitionReferences()
	an.AllParameterReferences()
	an.AllResponseReferences()
	an.AllPathItemReferences()
	an.AllItemsReferences()
	an.AllReferences()
	an.AllRefs()
	an.ParameterPatterns()
	an.HeaderPatterns()
	an.ItemsPatterns()
	an.SchemaPatterns()
	an.AllPatterns()
	an.ParameterEnums()
	an.HeaderEnums()
	an.ItemsEnums()
	an.SchemaEnums()
	an.AllEnums()
	an.OperationForName(id)
	if op, ok := an.OperationFor(method, path); ok && op != nil {
		an.ConsumesFor(op)
		an.ProducesFor(op)
		reqs := an.SecurityRequirementsFor(op)
		an.SecurityDefinitionsFor(op)
		for _, r := range reqs {
			an.SecurityDefinitionsForRequirements(r)
		}
	}
	if doc.Paths != nil {
		// unresolvable parameter $refs make the plain variants panic (C15); the Safe variants report them
		an.SafeParamsFor(method, path, func(spec.Parameter, error) bool { return true })
		an.SafeParametersFor(id, func(spec.Parameter, error) bool { return true })
		vrfPanics(func() { an.ParamsFor(method, path) })
		vrfPanics(func() { an.ParametersFor(id) })
	}
}

// frame condition + non-interference: building the analyzer and querying it writes nothing that existed before
func vrfH_C16frame() {
	doc := c16Doc()
	snap := vrfDeepCopy(doc).(*spec.Swagger)
	an := New(doc)
	vrfAssert("New-leaves-the-document-unchanged", vrfDeepEqual(doc, snap))

	method := vrfStr("q.method", 3)
	vrfAssume(c14IsASCII(method))
	path := vrfStr("q.path", 2)
	id := vrfStr("q.id", 1)
	before := vrfDeepCopy(an).(*Spec)

	vrfFreeze()
	vrfConcurrently(func() { c16Queries(an, doc, method, path, id) })
	vrfThaw()

	ok := vrfDeepEqual(doc, snap) && vrfDeepEqual(an, before)
	vrfAssert("state-unchanged-by-queries", ok)
	vrfCover("a-query-hits-an-operation", doc.Paths != nil && len(doc.Paths.Paths) > 0)
}

// maps handed out by the pattern and enum queries are copies
func vrfH_C16clone() {
	doc := c16Doc()
	an := New(doc)
	k1 := vrfStr("mut.insert.key", 3)
	k2 := vrfStr("mut.delete.key", 3)
	which := vrfParam("getter", 0)
	if which < 5 {
		get := []func() map[string]string{an.ParameterPatterns, an.HeaderPatterns, an.ItemsPatterns, an.SchemaPatterns, an.AllPatterns}[which]
		m := get()
		first := vrfDeepCopy(m).(map[string]string)
		delete(m, k2)
		for k := range m {
			delete(m, k)
			break
		}
		m[k1] = "injected"
		vrfAssert("pattern-map-is-a-copy", vrfDeepEqual(get(), first))
		vrfCover("map-non-empty", len(first) > 0)
		vrfCover("map-empty", len(first) == 0)
	} else {
		get := []func() map[string][]interface{}{an.ParameterEnums, an.HeaderEnums, an.ItemsEnums, an.SchemaEnums, an.AllEnums}[which-5]
		m := get()
		first := vrfDeepCopy(m).(map[string][]interface{})
		delete(m, k2)
		for k := range m {
			delete(m, k)
			break
		}
		m[k1] = []interface{}{"injected"}
		vrfAssert("enum-map-is-a-copy", vrfDeepEqual(get(), first))
		vrfCover("map-non-empty", len(first) > 0)
		vrfCover("map-empty", len(first) == 0)
	}
}
