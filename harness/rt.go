package analysis

// Harness runtime. The functions below are the "nondet / assume / assert" vocabulary of the
// harnesses (DESIGN.md §3.2). The symbolic executor (symgo) intercepts every vrf* function of
// this file by name and never executes these bodies; the bodies are the NATIVE semantics used
// when a solver model is replayed against the really compiled code (go test -overlay).

import (
	"encoding/json"
	"fmt"
	"os"
	"reflect"
	"sync"
	"unsafe"
)

type vrfReplayFile struct {
	Entry  string            `json:"entry"`
	Kind   string            `json:"kind"`
	ID     string            `json:"id"`
	Params map[string]int    `json:"params"`
	Model  map[string]uint64 `json:"model"`
}

var (
	vrfReplay   vrfReplayFile
	vrfFailures []string
	vrfCovered  = map[string]bool{}
	vrfRegistry = map[string]func(){}
)

type vrfAssumeFailed struct{ what string }

func vrfLoadReplay(path string) error {
	b, err := os.ReadFile(path)
	if err != nil {
		return err
	}
	vrfReplay = vrfReplayFile{}
	vrfFailures = nil
	vrfCovered = map[string]bool{}
	return json.Unmarshal(b, &vrfReplay)
}

func vrfRegister(name string, f func()) bool { vrfRegistry[name] = f; return true }

func vrfParam(name string, def int) int {
	if v, ok := vrfReplay.Params[name]; ok {
		return v
	}
	return def
}

func vrfBool(name string) bool { return vrfReplay.Model["b!"+name] != 0 }

func vrfInt(name string, lo, hi int) int {
	v, ok := vrfReplay.Model["i!"+name]
	if !ok {
		return lo
	}
	n := int(int64(v))
	if n < lo || n > hi {
		panic(vrfAssumeFailed{"vrfInt out of range: " + name})
	}
	return n
}

func vrfStr(name string, n int) string {
	ln := int(vrfReplay.Model["s!"+name+"!len"])
	if ln < 0 || ln > n {
		panic(vrfAssumeFailed{"vrfStr too long: " + name})
	}
	b := make([]byte, ln)
	for i := range b {
		b[i] = byte(vrfReplay.Model[fmt.Sprintf("s!%s!%d", name, i)])
	}
	return string(b)
}

func vrfAssume(c bool) {
	if !c {
		panic(vrfAssumeFailed{"assumption false"})
	}
}

func vrfAssert(id string, c bool) {
	if !c {
		vrfFailures = append(vrfFailures, id)
	}
}

func vrfCover(id string, c bool) {
	if c {
		vrfCovered[id] = true
	}
}

// vrfKnown marks the inputs of a recorded known finding (KNOWN_FINDINGS.txt). Symbolically the
// executor assumes !c (exclude mode) or c (confirm mode) when key is an open finding, and nothing
// otherwise; natively it is a no-op.
func vrfKnown(key string, c bool) {}

// vrfEager asks the executor to prune infeasible branches with the solver inside the named callee.
func vrfEager(callee string) {}

// vrfMapOrder(label): from here on every range over a map (and every reflect.MapIter) visits the live entries in a
// SYMBOLIC permutation (fresh permutation variables named after label); "" switches back to the fixed order.
// Natively a no-op: the Go runtime randomises map iteration by itself.
func vrfMapOrder(label string) {}

// vrfTrials: how many times an order-sensitivity harness repeats the unit: 2 symbolically (two independent symbolic
// permutations cover every pair of orders), many natively (the runtime draws a random order each time).
func vrfTrials() int { return 64 }

// vrfFreeze / vrfThaw: write monitor on every heap object existing at the freeze (symbolic only).
func vrfFreeze() {}
func vrfThaw()   {}

// vrfConcurrently: symbolically f runs once; natively two goroutines run it at the same time, so that the race
// detector (replay binary built with -race) reports any write f makes to shared memory.
func vrfConcurrently(f func()) {
	var wg sync.WaitGroup
	var failed interface{}
	var mu sync.Mutex
	for i := 0; i < 2; i++ {
		wg.Add(1)
		go func() {
			defer wg.Done()
			defer func() {
				if r := recover(); r != nil {
					mu.Lock()
					failed = r
					mu.Unlock()
				}
			}()
			f()
		}()
	}
	wg.Wait()
	if failed != nil {
		panic(failed)
	}
}

func vrfPanics(f func()) (p bool) {
	defer func() {
		if r := recover(); r != nil {
			if af, ok := r.(vrfAssumeFailed); ok {
				panic(af)
			}
			p = true
		}
	}()
	f()
	return false
}

func vrfDeepEqual(a, b interface{}) bool { return reflect.DeepEqual(a, b) }

// vrfSameSet: the two slices have the same elements, multiplicities ignored; vrfNoDup: no element occurs twice.
func vrfSameSet(a, b interface{}) bool {
	va, vb := reflect.ValueOf(a), reflect.ValueOf(b)
	in := func(x reflect.Value, l reflect.Value) bool {
		for j := 0; j < l.Len(); j++ {
			if reflect.DeepEqual(x.Interface(), l.Index(j).Interface()) {
				return true
			}
		}
		return false
	}
	for i := 0; i < va.Len(); i++ {
		if !in(va.Index(i), vb) {
			return false
		}
	}
	for i := 0; i < vb.Len(); i++ {
		if !in(vb.Index(i), va) {
			return false
		}
	}
	return true
}

func vrfNoDup(a interface{}) bool {
	va := reflect.ValueOf(a)
	for i := 0; i < va.Len(); i++ {
		for j := i + 1; j < va.Len(); j++ {
			if reflect.DeepEqual(va.Index(i).Interface(), va.Index(j).Interface()) {
				return false
			}
		}
	}
	return true
}

// vrfSameMultiset: two slices hold the same elements with the same multiplicities (element equality = DeepEqual).
func vrfSameMultiset(a, b interface{}) bool {
	va, vb := reflect.ValueOf(a), reflect.ValueOf(b)
	if va.Len() != vb.Len() {
		return false
	}
	used := make([]bool, vb.Len())
	for i := 0; i < va.Len(); i++ {
		found := false
		for j := 0; j < vb.Len(); j++ {
			if !used[j] && reflect.DeepEqual(va.Index(i).Interface(), vb.Index(j).Interface()) {
				used[j], found = true, true
				break
			}
		}
		if !found {
			return false
		}
	}
	return true
}

// vrfDeepCopy: structural copy preserving aliasing, including unexported fields.
func vrfDeepCopy(x interface{}) interface{} {
	if x == nil {
		return nil
	}
	v := reflect.ValueOf(x)
	out := reflect.New(v.Type()).Elem()
	vrfCopyInto(out, v, map[uintptr]reflect.Value{})
	return out.Interface()
}

func vrfSettable(v reflect.Value) reflect.Value {
	if v.CanSet() {
		return v
	}
	return reflect.NewAt(v.Type(), unsafe.Pointer(v.UnsafeAddr())).Elem()
}

func vrfReadable(v reflect.Value) reflect.Value {
	if v.CanInterface() {
		return v
	}
	if v.CanAddr() {
		return reflect.NewAt(v.Type(), unsafe.Pointer(v.UnsafeAddr())).Elem()
	}
	// copy into an addressable temporary
	t := reflect.New(v.Type()).Elem()
	// reflect forbids Set from unexported; go through unsafe on a pointer when possible
	switch v.Kind() {
	case reflect.Bool:
		t.SetBool(v.Bool())
	case reflect.Int, reflect.Int8, reflect.Int16, reflect.Int32, reflect.Int64:
		t.SetInt(v.Int())
	case reflect.Uint, reflect.Uint8, reflect.Uint16, reflect.Uint32, reflect.Uint64, reflect.Uintptr:
		t.SetUint(v.Uint())
	case reflect.String:
		t.SetString(v.String())
	case reflect.Float32, reflect.Float64:
		t.SetFloat(v.Float())
	default:
		panic("vrfDeepCopy: unreadable unexported value of kind " + v.Kind().String())
	}
	return t
}

func vrfCopyInto(dst, src reflect.Value, memo map[uintptr]reflect.Value) {
	dst = vrfSettable(dst)
	switch src.Kind() {
	case reflect.Ptr:
		if src.IsNil() {
			return
		}
		if n, ok := memo[src.Pointer()]; ok && n.Type() == src.Type() {
			dst.Set(n)
			return
		}
		n := reflect.New(src.Type().Elem())
		memo[src.Pointer()] = n
		vrfCopyInto(n.Elem(), src.Elem(), memo)
		dst.Set(n)
	case reflect.Interface:
		if src.IsNil() {
			return
		}
		e := src.Elem()
		n := reflect.New(e.Type()).Elem()
		vrfCopyInto(n, e, memo)
		dst.Set(n)
	case reflect.Struct:
		// make src addressable so unexported fields can be read
		if !src.CanAddr() {
			t := reflect.New(src.Type()).Elem()
			t.Set(src)
			src = t
		}
		for i := 0; i < src.NumField(); i++ {
			vrfCopyInto(dst.Field(i), vrfReadable(src.Field(i)), memo)
		}
	case reflect.Slice:
		if src.IsNil() {
			return
		}
		n := reflect.MakeSlice(src.Type(), src.Len(), src.Len())
		for i := 0; i < src.Len(); i++ {
			vrfCopyInto(n.Index(i), src.Index(i), memo)
		}
		dst.Set(n)
	case reflect.Array:
		for i := 0; i < src.Len(); i++ {
			vrfCopyInto(dst.Index(i), src.Index(i), memo)
		}
	case reflect.Map:
		if src.IsNil() {
			return
		}
		n := reflect.MakeMapWithSize(src.Type(), src.Len())
		it := src.MapRange()
		for it.Next() {
			v := reflect.New(src.Type().Elem()).Elem()
			vrfCopyInto(v, it.Value(), memo)
			n.SetMapIndex(it.Key(), v)
		}
		dst.Set(n)
	case reflect.Func, reflect.Chan, reflect.UnsafePointer:
		if !src.IsZero() {
			dst.Set(src)
		}
	default:
		dst.Set(src)
	}
}
