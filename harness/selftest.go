package analysis

import "github.com/go-openapi/jsonpointer"

// Lemmas behind the executor's provenance fast paths, decided by the solver on every run of `symgo selftest`
// (part of setup_cmd): for every string x of up to 3 bytes,
//   - the executor's model of jsonpointer.Escape agrees with an independent Go model (oesc),
//   - Unescape(Escape(x)) == x on the Go models (what the fast path Unescape(piece tagged Escape(x)) = x relies on),
//   - Unescape(Escape(u) + c + Escape(z) + d) == u + c + z + d for '~'-free constants c, d and 1-byte u, z (piecewise fast path),
//   - an escaped string contains no '/', so the tokens of "/a/b" + "/" + Escape(x) are exactly its rope tokens.
var _ = vrfRegister("vrfH_SelfEscape", vrfH_SelfEscape)

func vrfH_SelfEscape() {
	x := vrfStr("x", 3)
	y := oesc(x)
	vrfAssert("escape-model-agrees-with-independent-model", jsonpointer.Escape(x) == y)
	vrfAssert("unescape-after-escape-is-identity", vrfModelUnescape(y) == x)
	noSlash := true
	for i := 0; i < len(y); i++ {
		if y[i] == '/' {
			noSlash = false
		}
	}
	vrfAssert("escaped-form-has-no-slash", noSlash)
	toks := vrfModelTokens("/definitions/" + y)
	vrfAssert("token-split", len(toks) == 2 && toks[0] == "definitions" && toks[1] == y)
	vrfCover("a-string-with-tilde-and-slash", len(x) == 3 && x[0] == '~' && x[1] == '/')
	// piecewise Unescape: a token made of Escape results and '~'-free pieces unescapes piece by piece
	// (no escape sequence straddles a boundary: an Escape result never ends in a bare '~')
	// (boundaries only involve the last and first byte of adjacent pieces: 1-byte strings around a 1-byte constant)
	u, z := vrfStr("u", 1), vrfStr("z", 1)
	vrfAssert("unescape-is-piecewise-on-escaped-and-plain-pieces", vrfModelUnescape(oesc(u)+"G"+oesc(z)+"1") == u+"G"+z+"1")
}
