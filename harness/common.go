package analysis

// Shared pieces of the harnesses: the name alphabet, independent pointer escaping for the oracles,
// and Go reference models of dependency functions that the executor substitutes (DESIGN.md §3.8).

// vrfValidName is the alphabet Σ of the properties: printable ASCII except '"', '\\' and '%', plus
// well-formed 2-byte UTF-8 sequences; not "", "." or "..".
func vrfValidName(s string) bool {
	if len(s) == 0 || s == "." || s == ".." {
		return false
	}
	i := 0
	for i < len(s) {
		c := s[i]
		if c >= 0xC2 && c <= 0xDF {
			if i+1 >= len(s) || s[i+1] < 0x80 || s[i+1] > 0xBF {
				return false
			}
			i += 2
			continue
		}
		if c < 0x20 || c > 0x7e || c == '"' || c == '\\' || c == '%' {
			return false
		}
		i++
	}
	return true
}

// vrfASCIIName: the ASCII part of Σ.
func vrfASCIIName(s string) bool {
	if len(s) == 0 || s == "." || s == ".." {
		return false
	}
	for i := 0; i < len(s); i++ {
		c := s[i]
		if c < 0x20 || c > 0x7e || c == '"' || c == '\\' || c == '%' {
			return false
		}
	}
	return true
}

func symName(tag string, n int) string {
	s := vrfStr(tag, n)
	vrfAssume(vrfASCIIName(s))
	return s
}

func symNameU(tag string, n int) string {
	s := vrfStr(tag, n)
	vrfAssume(vrfValidName(s))
	return s
}

// oesc: JSON-pointer escaping written independently of jsonpointer.Escape (used by oracles only).
func oesc(s string) string {
	out := ""
	for i := 0; i < len(s); i++ {
		switch s[i] {
		case '~':
			out += "~0"
		case '/':
			out += "~1"
		default:
			out += s[i : i+1]
		}
	}
	return out
}

func itoaSmall(i int) string {
	if i < 10 {
		return string([]byte{byte('0' + i)})
	}
	return string([]byte{byte('0' + i/10), byte('0' + i%10)})
}

// ---- Go models of dependency functions (validated natively against the real ones by selftest) ----

// stub for swag.ToGoName: the identity, except that the braces of path templates are dropped (as the real mangler
// does), so that "get /{a}" and "get /a" collide here as they do natively; harness name pools are chosen so that the
// stub and the real function induce the same equalities
func vrfModelIdent(s string) string {
	out := ""
	for i := 0; i < len(s); i++ {
		if s[i] != '{' && s[i] != '}' {
			out += s[i : i+1]
		}
	}
	return out
}

func vrfModelReplace2(s string, a, b byte, to string) string {
	out := ""
	i := 0
	for i < len(s) {
		if s[i] == a && i+1 < len(s) && s[i+1] == b {
			out += to
			i += 2
		} else {
			out += s[i : i+1]
			i++
		}
	}
	return out
}

// stub for swag.ToJSONName: the words of s (maximal runs of ASCII letters, digits and non-ASCII bytes; every other
// byte separates words, as in the real mangler) joined, every word but the first capitalised (ASCII). The real mangler
// also lower-cases the first word and upper-cases initialisms; the harnesses that reach it only depend on the result
// being some separator-free name (structure, not spelling, is asserted).
func vrfModelJSONName(s string) string {
	out := ""
	up := false
	for i := 0; i < len(s); i++ {
		c := s[i]
		if !(c >= 'a' && c <= 'z' || c >= 'A' && c <= 'Z' || c >= '0' && c <= '9' || c >= 0x80) {
			up = out != ""
			continue
		}
		if up && c >= 'a' && c <= 'z' {
			c -= 32
		}
		up = false
		out += string([]byte{c})
	}
	return out
}

// jsonpointer.Unescape: ReplaceAll("~1","/") then ReplaceAll("~0","~")
func vrfModelUnescape(s string) string {
	return vrfModelReplace2(vrfModelReplace2(s, '~', '1', "/"), '~', '0', "~")
}

// jsonpointer.New(f).referenceTokens: nil unless f starts with "/", else strings.Split(f, "/")[1:]
func vrfModelTokens(f string) []string {
	if len(f) == 0 || f[0] != '/' {
		return nil
	}
	var out []string
	start := 1
	for i := 1; i < len(f); i++ {
		if f[i] == '/' {
			out = append(out, f[start:i])
			start = i + 1
		}
	}
	out = append(out, f[start:])
	return out
}
