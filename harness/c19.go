package analysis

import "github.com/go-openapi/spec"

// C19: FixEmptyResponseDescriptions fills exactly the empty descriptions.

var _ = vrfRegister("vrfH_C19", vrfH_C19)

func c19Response(tag string) spec.Response {
	var r spec.Response
	r.Description = vrfStr(tag+".desc", 2)
	if vrfBool(tag + ".isref") {
		if vrfBool(tag + ".isref.wholedoc") {
			r.Ref = spec.MustCreateRef("responses/notFound.json") // a $ref to a whole document (no fragment)
		} else {
			r.Ref = spec.MustCreateRef("#/responses/x")
		}
	}
	return r
}

func c19Operation(tag string) *spec.Operation {
	if !vrfBool(tag + ".present") {
		return nil
	}
	op := &spec.Operation{}
	if vrfBool(tag + ".responses") {
		op.Responses = &spec.Responses{}
		if vrfBool(tag + ".default") {
			d := c19Response(tag + ".default")
			op.Responses.Default = &d
		}
		if vrfBool(tag + ".codes") {
			op.Responses.StatusCodeResponses = map[int]spec.Response{}
			ncodes := vrfParam("codes", 1)
			for i := 0; i < ncodes; i++ {
				t := tag + ".code" + itoaSmall(i)
				if vrfBool(t) {
					op.Responses.StatusCodeResponses[vrfInt(t+".v", 100, 599)] = c19Response(t)
				}
			}
		}
	}
	return op
}

func c19PathItem(tag string) spec.PathItem {
	var pi spec.PathItem
	if vrfBool(tag + ".ref") {
		// a path item may carry a $ref beside its own operations
		pi.Ref = spec.MustCreateRef("#/x-shared/pathitem")
	}
	pi.Get = c19Operation(tag + ".get")
	pi.Put = c19Operation(tag + ".put")
	pi.Post = c19Operation(tag + ".post")
	pi.Delete = c19Operation(tag + ".delete")
	pi.Options = c19Operation(tag + ".options")
	pi.Head = c19Operation(tag + ".head")
	pi.Patch = c19Operation(tag + ".patch")
	return pi
}

func c19Doc() *spec.Swagger {
	doc := &spec.Swagger{}
	if vrfBool("responses") {
		doc.Responses = map[string]spec.Response{}
		for i := 0; i < vrfParam("shared", 2); i++ {
			t := "responses." + itoaSmall(i)
			if vrfBool(t) {
				doc.Responses[vrfStr(t+".name", 2)] = c19Response(t)
			}
		}
	}
	if vrfBool("paths") {
		doc.Paths = &spec.Paths{}
		if vrfBool("paths.map") {
			doc.Paths.Paths = map[string]spec.PathItem{}
			for i := 0; i < vrfParam("paths", 1); i++ {
				t := "paths." + itoaSmall(i)
				if vrfBool(t) {
					doc.Paths.Paths[vrfStr(t+".name", 2)] = c19PathItem(t)
				}
			}
		}
	}
	return doc
}

// reference model, written from the statement of C19
func c19ModelResp(r spec.Response) spec.Response {
	if r.Description == "" && r.Ref.GetURL() == nil {
		r.Description = "(empty)"
	}
	return r
}

func c19Model(d *spec.Swagger) {
	for k, v := range d.Responses {
		d.Responses[k] = c19ModelResp(v)
	}
	if d.Paths == nil {
		return
	}
	for _, pi := range d.Paths.Paths {
		for _, op := range []*spec.Operation{pi.Get, pi.Put, pi.Post, pi.Delete, pi.Options, pi.Head, pi.Patch} {
			if op == nil || op.Responses == nil {
				continue
			}
			if op.Responses.Default != nil {
				*op.Responses.Default = c19ModelResp(*op.Responses.Default)
			}
			for code, r := range op.Responses.StatusCodeResponses {
				op.Responses.StatusCodeResponses[code] = c19ModelResp(r)
			}
		}
	}
}

func c19AllDescribed(d *spec.Swagger) bool {
	ok := true
	chk := func(r spec.Response) {
		if r.Ref.String() == "" && r.Description == "" {
			ok = false
		}
	}
	for _, v := range d.Responses {
		chk(v)
	}
	if d.Paths != nil {
		for _, pi := range d.Paths.Paths {
			for _, op := range []*spec.Operation{pi.Get, pi.Put, pi.Post, pi.Delete, pi.Options, pi.Head, pi.Patch} {
				if op == nil || op.Responses == nil {
					continue
				}
				if op.Responses.Default != nil {
					chk(*op.Responses.Default)
				}
				for _, r := range op.Responses.StatusCodeResponses {
					chk(r)
				}
			}
		}
	}
	return ok
}

func vrfH_C19() {
	doc := c19Doc()
	want := vrfDeepCopy(doc).(*spec.Swagger)
	c19Model(want)
	anyEmpty := !c19AllDescribed(doc)
	FixEmptyResponseDescriptions(doc)
	vrfAssert("matches-model", vrfDeepEqual(doc, want))
	vrfAssert("every-non-ref-response-described", c19AllDescribed(doc))
	again := vrfDeepCopy(doc).(*spec.Swagger)
	FixEmptyResponseDescriptions(doc)
	vrfAssert("idempotent", vrfDeepEqual(doc, again))
	vrfCover("some-empty-description-was-filled", anyEmpty)
	vrfCover("document-without-paths", doc.Paths == nil)
	vrfCover("operation-without-responses", doc.Paths != nil && len(doc.Paths.Paths) > 0)
}
