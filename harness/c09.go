package analysis

import (
	"errors"

	"github.com/go-openapi/analysis/internal/flatten/replace"

	"github.com/go-openapi/spec"
)

// C09: Flatten, New and Schema terminate and fail safe. Parts decided here: New on degenerate-but-loadable shapes
// (no panic). Other parts share harnesses: Schema termination (vrfH_C20self), removeUnused termination
// (vrfH_C06), Flatten on normal-form documents (vrfH_C08).

var _ = vrfRegister("vrfH_C09new", vrfH_C09new)

// Go model of spec.ResolveRefWithBase for fragment-only refs (substituted by the executor; natively the real one runs)
func vrfModelResolveRef(root interface{}, ref *spec.Ref, opts *spec.ExpandOptions) (*spec.Schema, error) {
	v, _, err := ref.GetPointer().Get(root)
	if err != nil {
		return nil, err
	}
	switch x := v.(type) {
	case spec.Schema:
		c := vrfDeepCopy(x).(spec.Schema)
		return &c, nil
	case *spec.Schema:
		if x == nil {
			return nil, errors.New("nil schema")
		}
		c := vrfDeepCopy(*x).(spec.Schema)
		return &c, nil
	}
	return nil, errors.New("not a schema")
}

// degenerate shapes a JSON load can produce: every optional pointer / map / list absent, empty, or holding empty values
func vrfH_C09new() {
	doc := &spec.Swagger{}
	if vrfBool("definitions") {
		doc.Definitions = spec.Definitions{}
		if vrfBool("def0") {
			var s spec.Schema
			if vrfBool("def0.items-empty") {
				s.Items = &spec.SchemaOrArray{}
			}
			if vrfBool("def0.items-empty-tuple") {
				s.Items = &spec.SchemaOrArray{Schemas: []spec.Schema{}}
			}
			if vrfBool("def0.addp-empty") {
				s.AdditionalProperties = &spec.SchemaOrBool{}
			}
			if vrfBool("def0.addi-empty") {
				s.AdditionalItems = &spec.SchemaOrBool{}
			}
			if vrfBool("def0.props-empty") {
				s.Properties = map[string]spec.Schema{}
			}
			if vrfBool("def0.allof-empty") {
				s.AllOf = []spec.Schema{}
			}
			doc.Definitions[symName("def0.name", 1)] = s
		}
	}
	if vrfBool("parameters") {
		doc.Parameters = map[string]spec.Parameter{}
		if vrfBool("param0") {
			var p spec.Parameter
			if vrfBool("param0.body-without-schema") {
				p.In = "body"
			}
			if vrfBool("param0.items-empty") {
				p.Items = &spec.Items{}
			}
			doc.Parameters[symName("param0.name", 1)] = p
		}
	}
	if vrfBool("responses") {
		doc.Responses = map[string]spec.Response{}
		if vrfBool("resp0") {
			var r spec.Response
			if vrfBool("resp0.headers-empty") {
				r.Headers = map[string]spec.Header{}
			}
			if vrfBool("resp0.header-without-items") {
				r.Headers = map[string]spec.Header{"X-A": {}}
			}
			doc.Responses[symName("resp0.name", 1)] = r
		}
	}
	if vrfBool("paths") {
		doc.Paths = &spec.Paths{}
		if vrfBool("paths.map") {
			doc.Paths.Paths = map[string]spec.PathItem{}
			if vrfBool("path0") {
				var pi spec.PathItem
				if vrfBool("path0.get") {
					op := &spec.Operation{}
					if vrfBool("path0.get.responses") {
						op.Responses = &spec.Responses{}
						if vrfBool("path0.get.default-empty") {
							op.Responses.Default = &spec.Response{}
						}
						if vrfBool("path0.get.codes-empty") {
							op.Responses.StatusCodeResponses = map[int]spec.Response{}
						}
					}
					if vrfBool("path0.get.params-empty") {
						op.Parameters = []spec.Parameter{}
					}
					if vrfBool("path0.get.param-empty") {
						op.Parameters = []spec.Parameter{{}}
					}
					if vrfBool("path0.get.security-empty-requirement") {
						op.Security = []map[string][]string{{}}
					}
					pi.Get = op
				}
				if vrfBool("path0.parameters-empty-param") {
					pi.Parameters = []spec.Parameter{{}}
				}
				doc.Paths.Paths["/"+symName("path0.name", 1)] = pi
			}
		}
	}
	if vrfBool("security-empty-requirement") {
		doc.Security = []map[string][]string{{}, nil}
	}
	var an *Spec
	panicked := vrfPanics(func() { an = New(doc) })
	vrfAssert("New-never-panics", !panicked)
	if !panicked {
		vrfAssert("New-returns-an-analyzer", an != nil)
		vrfPanicsNone(an)
	}
	vrfCover("document-with-everything-degenerate", doc.Paths != nil && doc.Definitions != nil)
}

// a few getters on the degenerate analyzer (no panic obligations apply)
func vrfPanicsNone(an *Spec) {
	an.AllDefinitions()
	an.AllRefs()
	an.OperationIDs()
	an.RequiredSecuritySchemes()
	an.AllPatterns()
}


var _ = vrfRegister("vrfH_C09deepest", vrfH_C09deepest)

var c09Targets = []string{
	"#/definitions/a/items",
	"#/definitions/a/additionalProperties",
	"#/definitions/a/additionalItems",
	"#/definitions/a/not",
	"#/definitions/a/properties/p",
	"#/paths/~1x/get/responses/200/schema",
	"#/paths/~1x/get/parameters/0/schema",
	"#/definitions/a",
	"#/definitions/missing/properties/x",
}

// replace.DeepestRef - called by Flatten on every $ref of the document when it names pointers and inline schemas -
// follows a $ref to whatever it designates. The position designated may be absent (a dangling $ref: class W+), hold a
// schema without $ref, or hold a $ref itself: it returns a result or an error, it never panics.
func vrfH_C09deepest() {
	doc := &spec.Swagger{}
	var a spec.Schema
	sub := func(tag string) *spec.Schema {
		s := &spec.Schema{}
		s.Description = tag
		if vrfBool(tag + ".isref") {
			s.Ref = spec.MustCreateRef("#/definitions/b")
		}
		return s
	}
	if vrfBool("a.items") {
		a.Items = &spec.SchemaOrArray{}
		if vrfBool("a.items.schema") {
			a.Items.Schema = sub("a.items")
		}
	}
	if vrfBool("a.addp") {
		a.AdditionalProperties = &spec.SchemaOrBool{Allows: true}
		if vrfBool("a.addp.schema") {
			a.AdditionalProperties.Schema = sub("a.addp")
		}
	}
	if vrfBool("a.addi") {
		a.AdditionalItems = &spec.SchemaOrBool{Allows: true}
		if vrfBool("a.addi.schema") {
			a.AdditionalItems.Schema = sub("a.addi")
		}
	}
	if vrfBool("a.not") {
		a.Not = sub("a.not")
	}
	if vrfBool("a.props") {
		a.Properties = map[string]spec.Schema{}
		if vrfBool("a.props.p") {
			a.Properties["p"] = *sub("a.p")
		}
	}
	doc.Definitions = spec.Definitions{"a": a, "b": spec.Schema{}}
	op := &spec.Operation{}
	op.Responses = &spec.Responses{}
	var r spec.Response
	r.Description = "ok"
	if vrfBool("resp.schema") {
		r.Schema = sub("resp")
	}
	op.Responses.StatusCodeResponses = map[int]spec.Response{200: r}
	var p spec.Parameter
	p.Name, p.In = "body", "body"
	if vrfBool("param.schema") {
		p.Schema = sub("param")
	}
	op.Parameters = []spec.Parameter{p}
	var pi spec.PathItem
	pi.Get = op
	doc.Paths = &spec.Paths{Paths: map[string]spec.PathItem{"/x": pi}}

	ref := spec.MustCreateRef(c09Targets[vrfParam("target", 0)])
	var res *replace.DeepestRefResult
	var err error
	panicked := vrfPanics(func() { res, err = replace.DeepestRef(doc, &spec.ExpandOptions{}, ref) })
	vrfAssert("DeepestRef-never-panics", !panicked)
	// what the harness knows about the designated position
	var holder *spec.Schema
	absent := false
	switch vrfParam("target", 0) {
	case 0:
		absent = a.Items == nil
		if a.Items != nil {
			holder = a.Items.Schema
		}
	case 1:
		absent = a.AdditionalProperties == nil
		if a.AdditionalProperties != nil {
			holder = a.AdditionalProperties.Schema
		}
	case 2:
		absent = a.AdditionalItems == nil
		if a.AdditionalItems != nil {
			holder = a.AdditionalItems.Schema
		}
	case 3:
		absent, holder = a.Not == nil, a.Not
	case 4:
		if pp, ok := a.Properties["p"]; ok {
			holder = &pp
		} else {
			absent = true
		}
	case 5:
		absent, holder = r.Schema == nil, r.Schema
	case 6:
		absent, holder = p.Schema == nil, p.Schema
	case 8:
		absent = true
	}
	holdsRef := holder != nil && holder.Ref.String() != ""
	if !panicked {
		vrfAssert("result-or-error", (res != nil) != (err != nil))
		if absent {
			vrfAssert("dangling-ref-reported-as-an-error", err != nil)
		}
		if holdsRef {
			vrfAssert("ref-held-at-the-position-is-followed", err == nil && res != nil && res.Ref.String() == "#/definitions/b")
		}
	}
	if vrfParam("target", 0) != 7 {
		vrfCover("target-position-absent", !panicked && absent)
	}
	if vrfParam("target", 0) < 7 {
		vrfCover("target-position-holds-a-ref", !panicked && holdsRef)
	}
}
