package analysis

import (
	"errors"

	"github.com/go-openapi/spec"
)

// C09: Flatten, New and Schema terminate and fail safe. Parts decided here: New on degenerate-but-loadable shapes
// (no panic). Other parts share harnesses: Schema termination (vrfH_C20self), removeUnused termination
// (vrfH_C06), Flatten on normal-form documents (vrfH_C08).

var _ = vrfRegister("vrfH_C09new", vrfH_C09new)

// Go model of spec.ResolveRefWithBase for fragment-only refs (substituted by the executor; natively the real one runs)
func vrfModelResolveRef(root interface{}, ref *spec.Ref, opts *spec.ExpandOptions) (*spec.Schema, error) {
	v, _, err := ref.GetPointer().Get(root)
	if err != nil {
		return nil, err
	}
	switch x := v.(type) {
	case spec.Schema:
		c := vrfDeepCopy(x).(spec.Schema)
		return &c, nil
	case *spec.Schema:
		if x == nil {
			return nil, errors.New("nil schema")
		}
		c := vrfDeepCopy(*x).(spec.Schema)
		return &c, nil
	}
	return nil, errors.New("not a schema")
}

// degenerate shapes a JSON load can produce: every optional pointer / map / list absent, empty, or holding empty values
func vrfH_C09new() {
	doc := &spec.Swagger{}
	if vrfBool("definitions") {
		doc.Definitions = spec.Definitions{}
		if vrfBool("def0") {
			var s spec.Schema
			if vrfBool("def0.items-empty") {
				s.Items = &spec.SchemaOrArray{}
			}
			if vrfBool("def0.items-empty-tuple") {
				s.Items = &spec.SchemaOrArray{Schemas: []spec.Schema{}}
			}
			if vrfBool("def0.addp-empty") {
				s.AdditionalProperties = &spec.SchemaOrBool{}
			}
			if vrfBool("def0.addi-empty") {
				s.AdditionalItems = &spec.SchemaOrBool{}
			}
			if vrfBool("def0.props-empty") {
				s.Properties = map[string]spec.Schema{}
			}
			if vrfBool("def0.allof-empty") {
				s.AllOf = []spec.Schema{}
			}
			doc.Definitions[symName("def0.name", 1)] = s
		}
	}
	if vrfBool("parameters") {
		doc.Parameters = map[string]spec.Parameter{}
		if vrfBool("param0") {
			var p spec.Parameter
			if vrfBool("param0.body-without-schema") {
				p.In = "body"
			}
			if vrfBool("param0.items-empty") {
				p.Items = &spec.Items{}
			}
			doc.Parameters[symName("param0.name", 1)] = p
		}
	}
	if vrfBool("responses") {
		doc.Responses = map[string]spec.Response{}
		if vrfBool("resp0") {
			var r spec.Response
			if vrfBool("resp0.headers-empty") {
				r.Headers = map[string]spec.Header{}
			}
			if vrfBool("resp0.header-without-items") {
				r.Headers = map[string]spec.Header{"X-A": {}}
			}
			doc.Responses[symName("resp0.name", 1)] = r
		}
	}
	if vrfBool("paths") {
		doc.Paths = &spec.Paths{}
		if vrfBool("paths.map") {
			doc.Paths.Paths = map[string]spec.PathItem{}
			if vrfBool("path0") {
				var pi spec.PathItem
				if vrfBool("path0.get") {
					op := &spec.Operation{}
					if vrfBool("path0.get.responses") {
						op.Responses = &spec.Responses{}
						if vrfBool("path0.get.default-empty") {
							op.Responses.Default = &spec.Response{}
						}
						if vrfBool("path0.get.codes-empty") {
							op.Responses.StatusCodeResponses = map[int]spec.Response{}
						}
					}
					if vrfBool("path0.get.params-empty") {
						op.Parameters = []spec.Parameter{}
					}
					if vrfBool("path0.get.param-empty") {
						op.Parameters = []spec.Parameter{{}}
					}
					if vrfBool("path0.get.security-empty-requirement") {
						op.Security = []map[string][]string{{}}
					}
					pi.Get = op
				}
				if vrfBool("path0.parameters-empty-param") {
					pi.Parameters = []spec.Parameter{{}}
				}
				doc.Paths.Paths["/"+symName("path0.name", 1)] = pi
			}
		}
	}
	if vrfBool("security-empty-requirement") {
		doc.Security = []map[string][]string{{}, nil}
	}
	var an *Spec
	panicked := vrfPanics(func() { an = New(doc) })
	vrfAssert("New-never-panics", !panicked)
	if !panicked {
		vrfAssert("New-returns-an-analyzer", an != nil)
		vrfPanicsNone(an)
	}
	vrfCover("document-with-everything-degenerate", doc.Paths != nil && doc.Definitions != nil)
}

// a few getters on the degenerate analyzer (no panic obligations apply)
func vrfPanicsNone(an *Spec) {
	an.AllDefinitions()
	an.AllRefs()
	an.OperationIDs()
	an.RequiredSecuritySchemes()
	an.AllPatterns()
}

