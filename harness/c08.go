package analysis

import (
	"github.com/go-openapi/spec"
)

// C08: flattening an already flattened document again changes nothing (relative to C02/C03: the flattened normal
//      form is assumed as the shape of a first Flatten's output).
// C10: the analyzer handed to Flatten stays in sync with the document.
// C09: Flatten neither panics nor diverges on these documents.

var _ = vrfRegister("vrfH_C08", vrfH_C08)

var c08NameSets = [][]string{
	{"pet", "owner", "tag"},
	{"a/b", "x y", "~t"},
	{"{id}", "a/b~c d", "q?r#s"},
	{"é", "[0]", "A"},
}

// c08Doc: a document in flattened normal form: definitions with names over the alphabet, every schema $ref of the
// canonical form #/definitions/<name> to an existing definition, no $ref in parameters/responses/path items.
func c08Doc(n, nameLen int, unicode bool) (*spec.Swagger, []string, [][]bool, []bool) {
	var names []string
	if set := vrfParam("nameset", -1); set >= 0 {
		// whole-Flatten runs sort and re-index the keys many times: the definition names are concrete per run
		// (a set of names chosen for what they need: JSON-pointer escaping, URL escaping, both, none), everything
		// else about the document stays symbolic
		names = c08NameSets[set][:n]
	}
	for i := len(names); i < n; i++ {
		var nm string
		if unicode {
			nm = symNameU("def"+itoaSmall(i)+".name", nameLen)
		} else {
			nm = symName("def"+itoaSmall(i)+".name", nameLen)
		}
		for _, o := range names {
			vrfAssume(o != nm)
		}
		names = append(names, nm)
	}
	doc := &spec.Swagger{}
	doc.Definitions = spec.Definitions{}
	edge := make([][]bool, n)
	for i := 0; i < n; i++ {
		edge[i] = make([]bool, n)
		var s spec.Schema
		s.Description = "def" + itoaSmall(i)
		for j := 0; j < n; j++ {
			if !vrfBool("def" + itoaSmall(i) + ".refs.def" + itoaSmall(j)) {
				continue
			}
			edge[i][j] = true
			r := c06Ref(names[j])
			switch (i + j + vrfParam("edgeshift", 0)) % 4 { // distinct holder kind for each target j of one definition (n <= 4)
			case 0:
				if s.Properties == nil {
					s.Properties = map[string]spec.Schema{}
				}
				s.Properties["p"+itoaSmall(j)] = r
			case 1:
				s.Items = &spec.SchemaOrArray{Schema: &r}
			case 2:
				s.AllOf = append(s.AllOf, r)
			case 3:
				// additionalItems without items: a position an analyzer could forget
				s.AdditionalItems = &spec.SchemaOrBool{Allows: true, Schema: &r}
			}
		}
		doc.Definitions[names[i]] = s
	}
	op := &spec.Operation{}
	op.ID = "getA"
	used := make([]bool, n)
	for j := 0; j < n; j++ {
		if vrfBool("op.param.refs.def" + itoaSmall(j)) {
			used[j] = true
			var p spec.Parameter
			p.Name, p.In = "body"+itoaSmall(j), "body"
			r := c06Ref(names[j])
			p.Schema = &r
			op.Parameters = append(op.Parameters, p)
		}
	}
	op.Responses = &spec.Responses{}
	op.Responses.StatusCodeResponses = map[int]spec.Response{}
	for j := 0; j < n; j++ {
		if vrfBool("op.response.refs.def" + itoaSmall(j)) {
			used[j] = true
			var resp spec.Response
			resp.Description = "ok"
			r := c06Ref(names[j])
			resp.Schema = &r
			op.Responses.StatusCodeResponses[200+j] = resp
		}
	}
	if vrfBool("op.response.inline-simple") {
		var resp spec.Response
		resp.Description = "simple"
		resp.Schema = &spec.Schema{}
		resp.Schema.Type = spec.StringOrArray{"string"}
		op.Responses.Default = &resp
	}
	var pi spec.PathItem
	pi.Get = op
	doc.Paths = &spec.Paths{Paths: map[string]spec.PathItem{"/a": pi}}
	return doc, names, edge, used
}

func vrfH_C08() {
	n := vrfParam("defs", 2)
	doc, names, edge, used := c08Doc(n, vrfParam("namelen", 2), vrfParam("unicode", 0) != 0)
	removeUnused := vrfParam("removeunused", 0) != 0
	normal := vrfParam("unused", 0) == 0
	if vrfParam("unused", 0) != 0 {
		// not in normal form: leftovers that RemoveUnused drops (C10 only)
		if vrfBool("shared.parameter") {
			doc.Parameters = map[string]spec.Parameter{"sp": {}}
		}
		if vrfBool("shared.response") {
			doc.Responses = map[string]spec.Response{"sr": {}}
		}
	} else if removeUnused {
		// output of a Flatten with RemoveUnused: every definition is referred to
		for j := 0; j < n; j++ {
			ref := used[j]
			for i := 0; i < n; i++ {
				if edge[i][j] {
					ref = true
				}
			}
			vrfAssume(ref)
		}
	}
	_ = names
	vrfEager("ReverseIndex")
	vrfEager("normalize.Path")
	vrfEager("importExternalReferences")
	vrfEager("normalizeRef")
	vrfEager("namePointers")
	vrfEager("nameInlinedSchemas")
	snap := vrfDeepCopy(doc).(*spec.Swagger)
	an := New(doc)
	opts := FlattenOpts{Spec: an, BasePath: "/x/root.json", Minimal: vrfParam("minimal", 1) != 0, RemoveUnused: removeUnused}
	var err error
	panicked := vrfPanics(func() { err = Flatten(opts) })
	vrfAssert("flatten-does-not-panic", !panicked)
	if panicked {
		return
	}
	vrfAssert("flatten-succeeds", err == nil)
	if err != nil {
		return
	}
	if normal {
		vrfAssert("a-flattened-document-is-a-fixpoint", vrfDeepEqual(doc, snap))
	}
	vrfAssert("analyzer-in-sync-with-the-document", vrfDeepEqual(an, New(doc)))
	vrfCover("flatten-returned-nil", true)
	if n >= 2 {
		vrfCover("definitions-refer-to-each-other", edge[0][1] && edge[1][0])
	}
	if n >= 2 && vrfParam("nameset", -1) < 0 {
		vrfCover("definition-name-needs-escaping", len(names[0]) > 0 && (names[0][0] == '/' || names[0][0] == ' ' || names[0][0] == '~'))
	}
}
