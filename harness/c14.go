package analysis

import "github.com/go-openapi/spec"

// C14: operation lookups agree with the document.

var _ = vrfRegister("vrfH_C14ops", vrfH_C14ops)
var _ = vrfRegister("vrfH_C14media", vrfH_C14media)
var _ = vrfRegister("vrfH_C14sec", vrfH_C14sec)

var c14Methods = []string{"GET", "PUT", "POST", "DELETE", "OPTIONS", "HEAD", "PATCH"}

func c14OpsOf(pi spec.PathItem) []*spec.Operation {
	return []*spec.Operation{pi.Get, pi.Put, pi.Post, pi.Delete, pi.Options, pi.Head, pi.Patch}
}

func c14Strings(tag string, n int) []string {
	if !vrfBool(tag) {
		return nil
	}
	out := []string{}
	for i := 0; i < n; i++ {
		t := tag + "." + itoaSmall(i)
		if vrfBool(t) {
			out = append(out, vrfStr(t+".v", 1))
		}
	}
	return out
}

// security: nil, explicitly empty, or one requirement with <=2 schemes (scopes nil or one scope)
func c14Security(tag string) []map[string][]string {
	if !vrfBool(tag) {
		return nil
	}
	out := []map[string][]string{}
	if vrfBool(tag + ".req") {
		req := map[string][]string{}
		for i := 0; i < 2; i++ {
			t := tag + ".req." + itoaSmall(i)
			if vrfBool(t) {
				name := vrfStr(t+".scheme", 1)
				vrfAssume(name != "") // the empty name is not a scheme name (alphabet of C01)
				if vrfBool(t + ".scoped") {
					req[name] = []string{"s"}
				} else {
					req[name] = nil
				}
			}
		}
		out = append(out, req)
	}
	return out
}

type c14Slot struct {
	method, path string
	op           *spec.Operation
}

func c14Op(tag string, feat int) *spec.Operation {
	if !vrfBool(tag + ".present") {
		return nil
	}
	op := &spec.Operation{}
	if feat&1 != 0 {
		op.ID = vrfStr(tag+".id", 1)
	}
	if feat&2 != 0 {
		op.Consumes = c14Strings(tag+".consumes", 2)
		op.Produces = c14Strings(tag+".produces", 2)
	}
	if feat&4 != 0 {
		op.Security = c14Security(tag + ".security")
	}
	return op
}

// c14Doc: `paths` path items with distinct symbolic names; feat selects which operation attributes are symbolic
func c14Doc(paths, methods, feat int) (*spec.Swagger, []c14Slot) {
	doc := &spec.Swagger{}
	var slots []c14Slot
	if feat&2 != 0 {
		doc.Consumes = c14Strings("consumes", 2)
		doc.Produces = c14Strings("produces", 2)
	}
	if feat&4 != 0 {
		doc.Security = c14Security("security")
		if vrfBool("securityDefinitions") {
			doc.SecurityDefinitions = spec.SecurityDefinitions{}
			for i := 0; i < 2; i++ {
				t := "securityDefinitions." + itoaSmall(i)
				if vrfBool(t) {
					var sch *spec.SecurityScheme
					if vrfBool(t + ".nonnil") {
						sch = &spec.SecurityScheme{}
						sch.Description = t
					}
					doc.SecurityDefinitions[vrfStr(t+".key", 1)] = sch
				}
			}
		}
	}
	if !vrfBool("paths") {
		return doc, slots
	}
	doc.Paths = &spec.Paths{}
	if !vrfBool("paths.map") {
		return doc, slots
	}
	doc.Paths.Paths = map[string]spec.PathItem{}
	var names []string
	for i := 0; i < paths; i++ {
		t := "path" + itoaSmall(i)
		if !vrfBool(t) {
			continue
		}
		name := "/" + vrfStr(t+".name", vrfParam("pathlen", 1))
		for _, n := range names {
			vrfAssume(n != name)
		}
		names = append(names, name)
		var pi spec.PathItem
		if vrfBool(t + ".ref") {
			// a path item may carry a $ref beside its own operations: they remain operations of the document
			pi.Ref = spec.MustCreateRef("#/x-shared/pathitem")
		}
		if methods&1 != 0 {
			pi.Get = c14Op(t+".get", feat)
		}
		if methods&2 != 0 {
			pi.Put = c14Op(t+".put", feat)
		}
		if methods&4 != 0 {
			pi.Post = c14Op(t+".post", feat)
		}
		if methods&8 != 0 {
			pi.Delete = c14Op(t+".delete", feat)
		}
		if methods&16 != 0 {
			pi.Options = c14Op(t+".options", feat)
		}
		if methods&32 != 0 {
			pi.Head = c14Op(t+".head", feat)
		}
		if methods&64 != 0 {
			pi.Patch = c14Op(t+".patch", feat)
		}
		doc.Paths.Paths[name] = pi
		for k, op := range c14OpsOf(pi) {
			slots = append(slots, c14Slot{c14Methods[k], name, op})
		}
	}
	return doc, slots
}

func c14Upper(s string) string {
	b := []byte(s)
	for i := range b {
		if b[i] >= 'a' && b[i] <= 'z' {
			b[i] -= 32
		}
	}
	return string(b)
}

func c14IsASCII(s string) bool {
	for i := 0; i < len(s); i++ {
		if s[i] >= 0x80 {
			return false
		}
	}
	return true
}

// ---- operations index, lookups by method/path and by id, listings ----
func vrfH_C14ops() {
	doc, slots := c14Doc(vrfParam("paths", 1), vrfParam("methods", 127), 1)
	an := New(doc)

	// the index holds exactly the operations of the document
	n := 0
	for _, sl := range slots {
		got, ok := an.Operations()[sl.method][sl.path]
		if sl.op != nil {
			n++
			vrfAssert("operation-indexed", ok && got == sl.op)
		} else {
			vrfAssert("absent-operation-not-indexed", !ok)
		}
	}
	total := 0
	for m, byPath := range an.Operations() {
		known := false
		for _, k := range c14Methods {
			if k == m {
				known = true
			}
		}
		vrfAssert("only-the-seven-methods", known)
		total += len(byPath)
	}
	vrfAssert("nothing-else-indexed", total == n)

	// lookup by method (any ASCII spelling) and path
	m := vrfStr("q.method", 7)
	vrfAssume(c14IsASCII(m))
	p := vrfStr("q.path", 1+vrfParam("pathlen", 1))
	var want *spec.Operation
	for _, sl := range slots {
		if sl.op != nil && sl.method == c14Upper(m) && sl.path == p {
			want = sl.op
		}
	}
	got, found := an.OperationFor(m, p)
	vrfAssert("OperationFor", found == (want != nil) && got == want)
	vrfCover("lookup-with-mixed-case-hits", want != nil && m != c14Upper(m))
	vrfCover("lookup-misses", want == nil)
	if vrfParam("pathlen", 1) >= 2 {
		vrfCover("lookup-of-a-path-holding-an-escape-sequence", want != nil && p == "/~1")
	}

	// lookup by id: claimed for non-empty ids unique in the document, and for unknown ids
	id := vrfStr("q.id", 1)
	cnt := 0
	var byID c14Slot
	for _, sl := range slots {
		if sl.op != nil && sl.op.ID == id {
			cnt++
			byID = sl
		}
	}
	gm, gp, gop, gok := an.OperationForName(id)
	if id != "" && cnt == 1 {
		vrfAssert("OperationForName-unique-id", gok && gop == byID.op && gm == byID.method && gp == byID.path)
	}
	if cnt == 0 {
		vrfAssert("OperationForName-unknown-id", !gok && gop == nil)
	}
	vrfCover("id-found", id != "" && cnt == 1)

	// listings
	var wantIDs, wantMP []string
	for _, sl := range slots {
		if sl.op == nil {
			continue
		}
		mp := sl.method + " " + sl.path
		wantMP = append(wantMP, mp)
		if sl.op.ID != "" {
			wantIDs = append(wantIDs, sl.op.ID)
		} else {
			wantIDs = append(wantIDs, mp)
		}
	}
	vrfAssert("OperationIDs", vrfSameMultiset(an.OperationIDs(), wantIDs))
	vrfAssert("OperationMethodPaths", vrfSameMultiset(an.OperationMethodPaths(), wantMP))
	if doc.Paths == nil {
		vrfAssert("AllPaths-without-paths", len(an.AllPaths()) == 0)
	} else {
		vrfAssert("AllPaths", vrfDeepEqual(an.AllPaths(), doc.Paths.Paths))
	}
	vrfCover("document-without-paths", doc.Paths == nil)
	vrfCover("some-operation", n > 0)
}

// ---- consumes / produces ----
func vrfH_C14media() {
	doc, slots := c14Doc(vrfParam("paths", 1), vrfParam("methods", 3), 2)
	an := New(doc)
	allC := append([]string{}, doc.Consumes...)
	allP := append([]string{}, doc.Produces...)
	for _, sl := range slots {
		if sl.op == nil {
			continue
		}
		allC = append(allC, sl.op.Consumes...)
		allP = append(allP, sl.op.Produces...)
		wc, wp := doc.Consumes, doc.Produces
		if len(sl.op.Consumes) > 0 {
			wc = sl.op.Consumes
		}
		if len(sl.op.Produces) > 0 {
			wp = sl.op.Produces
		}
		gc, gp := an.ConsumesFor(sl.op), an.ProducesFor(sl.op)
		vrfAssert("ConsumesFor", vrfSameSet(gc, wc) && vrfNoDup(gc))
		vrfAssert("ProducesFor", vrfSameSet(gp, wp) && vrfNoDup(gp))
		vrfCover("operation-overrides-consumes", len(sl.op.Consumes) > 0 && len(doc.Consumes) > 0)
		vrfCover("operation-inherits-produces", len(sl.op.Produces) == 0 && len(doc.Produces) > 0)
	}
	rc, rp := an.RequiredConsumes(), an.RequiredProduces()
	vrfAssert("RequiredConsumes", vrfSameSet(rc, allC) && vrfNoDup(rc))
	vrfAssert("RequiredProduces", vrfSameSet(rp, allP) && vrfNoDup(rp))
}

// ---- security ----

func c14SameScopes(a, b []string) bool {
	if len(a) != len(b) {
		return false
	}
	for i := range a {
		if a[i] != b[i] {
			return false
		}
	}
	return true
}

func vrfH_C14sec() {
	doc, slots := c14Doc(vrfParam("paths", 1), vrfParam("methods", 1), 4)
	an := New(doc)
	var schemes []string
	for _, req := range doc.Security {
		for k := range req {
			schemes = append(schemes, k)
		}
	}
	for _, sl := range slots {
		if sl.op == nil {
			continue
		}
		for _, req := range sl.op.Security {
			for k := range req {
				schemes = append(schemes, k)
			}
		}
		// effective requirements: the operation's when it declares any (an empty list disables security), else the document's
		eff := doc.Security
		if sl.op.Security != nil {
			eff = sl.op.Security
		}
		got := an.SecurityRequirementsFor(sl.op)
		vrfAssert("SecurityRequirementsFor-length", len(got) == len(eff))
		if doc.Security == nil && sl.op.Security == nil {
			vrfAssert("no-security-anywhere-gives-nil", got == nil)
		}
		wantDefs := map[string]spec.SecurityScheme{}
		for i := 0; i < len(eff) && i < len(got); i++ {
			if len(eff[i]) == 0 {
				vrfAssert("empty-requirement", len(got[i]) == 1 && got[i][0].Name == "" && len(got[i][0].Scopes) == 0)
				continue
			}
			vrfAssert("requirement-size", len(got[i]) == len(eff[i]))
			for _, r := range got[i] {
				sc, ok := eff[i][r.Name]
				vrfAssert("requirement-names-a-declared-scheme-with-its-scopes", ok && c14SameScopes(sc, r.Scopes))
			}
			for name := range eff[i] {
				seen := false
				for _, r := range got[i] {
					if r.Name == name {
						seen = true
					}
				}
				vrfAssert("every-declared-scheme-reported", seen)
				if d, ok := doc.SecurityDefinitions[name]; ok && d != nil {
					wantDefs[name] = *d
				}
			}
		}
		gd := an.SecurityDefinitionsFor(sl.op)
		if len(eff) == 0 {
			vrfAssert("no-requirements-no-definitions", len(gd) == 0)
		} else {
			vrfAssert("SecurityDefinitionsFor", len(gd) == len(wantDefs) && vrfDeepEqual(gd, wantDefs))
		}
		if len(got) > 0 {
			vrfAssert("SecurityDefinitionsForRequirements", vrfDeepEqual(an.SecurityDefinitionsForRequirements(got[0]), wantDefs) || len(eff[0]) == 0)
		}
		vrfCover("explicit-empty-security-overrides-document", sl.op.Security != nil && len(sl.op.Security) == 0 && len(doc.Security) > 0)
		vrfCover("operation-inherits-document-security", sl.op.Security == nil && len(doc.Security) > 0)
		vrfCover("definition-found", len(wantDefs) > 0)
	}
	rs := an.RequiredSecuritySchemes()
	vrfAssert("RequiredSecuritySchemes", vrfSameSet(rs, schemes) && vrfNoDup(rs))
}
